#!/bin/sh
# dev helper: run every claimed check at the given tier, print the summary lines
tier=${1:-quick}
cd "$(dirname "$0")"
for p in $(python3 -c "import json; print(' '.join(c['property_id'] for c in json.load(open('MANIFEST.json'))['checks']))"); do
  s=$(date +%s)
  ./check $p --tier $tier > /tmp/runall-$p.log 2>&1
  rc=$?
  echo "$p rc=$rc $(( $(date +%s) - s ))s $(tail -1 /tmp/runall-$p.log | cut -c1-200)"
done
