// Native demonstration of the three C04 defects (F1 clear, F2 retain, F3 clone)
// against the real crate through its public API only.  Place in tests/ of a
// scratch copy and run `cargo test --test c04_demo`.
// Before the fix: commits each test fails (double destruction / garbage treated
// as live); after them all three pass.
use micromap::Map;
use std::cell::RefCell;
use std::panic::{catch_unwind, AssertUnwindSafe};

thread_local! {
    static DROPS: RefCell<Vec<u32>> = RefCell::new(Vec::new());
}

struct T {
    id: u32,
    bomb_on_drop: bool,
    bomb_on_clone: bool,
}
impl T {
    fn new(id: u32) -> T {
        T { id, bomb_on_drop: false, bomb_on_clone: false }
    }
}
impl PartialEq for T {
    fn eq(&self, o: &T) -> bool {
        self.id == o.id
    }
}
impl Clone for T {
    fn clone(&self) -> T {
        if self.bomb_on_clone {
            panic!("user Clone panics");
        }
        T { id: self.id + 1000, bomb_on_drop: false, bomb_on_clone: false }
    }
}
impl Drop for T {
    fn drop(&mut self) {
        DROPS.with(|d| d.borrow_mut().push(self.id));
        if self.bomb_on_drop {
            self.bomb_on_drop = false;
            panic!("user Drop panics");
        }
    }
}

fn drops() -> Vec<u32> {
    DROPS.with(|d| d.borrow().clone())
}
fn max_count(v: &[u32]) -> usize {
    v.iter().map(|x| v.iter().filter(|y| *y == x).count()).max().unwrap_or(0)
}

#[test]
fn f1_clear_with_panicking_drop_destroys_nothing_twice() {
    DROPS.with(|d| d.borrow_mut().clear());
    let mut m: Map<u32, T, 3> = Map::new();
    m.insert(0, T::new(10));
    let mut b = T::new(11);
    b.bomb_on_drop = true;
    m.insert(1, b);
    m.insert(2, T::new(12));
    let r = catch_unwind(AssertUnwindSafe(|| m.clear()));
    assert!(r.is_err());
    drop(m);
    let d = drops();
    assert!(max_count(&d) <= 1, "an element was destroyed twice: {:?}", d);
}

#[test]
fn f2_retain_with_panicking_drop_destroys_nothing_twice() {
    DROPS.with(|d| d.borrow_mut().clear());
    let mut m: Map<u32, T, 3> = Map::new();
    let mut b = T::new(20);
    b.bomb_on_drop = true;
    m.insert(0, b);
    m.insert(1, T::new(21));
    let r = catch_unwind(AssertUnwindSafe(|| m.retain(|k, _| *k != 0)));
    assert!(r.is_err());
    drop(m);
    let d = drops();
    assert!(max_count(&d) <= 1, "an element was destroyed twice: {:?}", d);
}

#[test]
fn f3_clone_with_panicking_clone_never_drops_uninitialised_slots() {
    DROPS.with(|d| d.borrow_mut().clear());
    let mut m: Map<u32, T, 3> = Map::new();
    m.insert(0, T::new(30));
    let mut b = T::new(31);
    b.bomb_on_clone = true;
    m.insert(1, b);
    m.insert(2, T::new(32));
    let r = catch_unwind(AssertUnwindSafe(|| {
        let _c = m.clone();
    }));
    assert!(r.is_err());
    let d = drops();
    // only the one finished clone (id 1030) may have been destroyed
    assert!(d.iter().all(|x| *x == 1030), "destructors ran on never-initialised slots: {:?}", d);
    drop(m);
}
