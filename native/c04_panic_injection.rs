// Bounded stand-in (native execution) for C04: one injected panic per run, at the
// k-th user callback (key `==`, `Clone`, `Drop`, predicate / closure / source
// iterator), for a list of operations on containers of capacity 3 (2-3 entries),
// k = 0..16.  After unwinding: no element may have been destroyed twice, no destructor
// may have run on something that was never created, and every container involved must
// be well-formed (len <= capacity, iteration yields len items) and droppable.
// Leaks are tolerated.  This complements the Kani unwind monitor, which cannot see
// values held in locals of the operation (e.g. an iterator moved into `fold`).
// Labelled BOUNDED in the evidence; never counted as proved.
use micromap::{Map, Set};
use std::cell::RefCell;
use std::panic::{catch_unwind, AssertUnwindSafe};

thread_local! {
    static DROPS: RefCell<Vec<u32>> = RefCell::new(Vec::new());
    static NEXT: RefCell<u32> = RefCell::new(0);
    static CALLS: RefCell<i64> = RefCell::new(0);
    static BOMB: RefCell<i64> = RefCell::new(-1);
}

fn tick(what: &str) {
    let fire = CALLS.with(|c| {
        let mut c = c.borrow_mut();
        let now = *c;
        *c += 1;
        BOMB.with(|b| *b.borrow() == now)
    });
    if fire && !std::thread::panicking() {
        panic!("injected panic in {what}");
    }
}

#[derive(Debug)]
struct T {
    id: u32,
    key: u32,
    magic: u32,
}
impl T {
    fn new(key: u32) -> T {
        let id = NEXT.with(|n| {
            *n.borrow_mut() += 1;
            *n.borrow()
        });
        T { id, key, magic: 0xC0FFEE }
    }
}
impl PartialEq for T {
    fn eq(&self, o: &T) -> bool {
        tick("eq");
        self.key == o.key
    }
}
impl Eq for T {}
impl Clone for T {
    fn clone(&self) -> T {
        tick("clone");
        T::new(self.key)
    }
}
impl Drop for T {
    fn drop(&mut self) {
        DROPS.with(|d| d.borrow_mut().push(if self.magic == 0xC0FFEE { self.id } else { u32::MAX }));
        tick("drop");
    }
}

fn arm(k: i64) {
    CALLS.with(|c| *c.borrow_mut() = 0);
    BOMB.with(|b| *b.borrow_mut() = k);
}
fn disarm() {
    BOMB.with(|b| *b.borrow_mut() = -1);
}
fn reset() {
    disarm();
    DROPS.with(|d| d.borrow_mut().clear());
    NEXT.with(|n| *n.borrow_mut() = 0);
}
fn verdict(op: &str, k: i64) {
    let minted = NEXT.with(|n| *n.borrow());
    DROPS.with(|d| {
        let d = d.borrow();
        for x in d.iter() {
            assert!(*x != u32::MAX && *x >= 1 && *x <= minted, "op={op} k={k}: a destructor ran on something that is not a live element: {:?}", d);
            assert!(d.iter().filter(|y| *y == x).count() == 1, "op={op} k={k}: element {x} was destroyed twice: {:?}", d);
        }
    });
}
fn wf_map(m: &Map<T, T, 3>, op: &str, k: i64) {
    assert!(m.len() <= m.capacity(), "op={op} k={k}: len exceeds capacity after the panic");
    assert!(m.iter().count() == m.len(), "op={op} k={k}: iteration disagrees with len after the panic");
}
fn wf_set(s: &Set<T, 3>, op: &str, k: i64) {
    assert!(s.len() <= s.capacity() && s.iter().count() == s.len(), "op={op} k={k}: set broken after the panic");
}

fn map3(n: u32) -> Map<T, T, 3> {
    let mut m = Map::new();
    for i in 0..n {
        m.insert(T::new(i), T::new(100 + i));
    }
    m
}
fn set3(n: u32, base: u32) -> Set<T, 3> {
    let mut s = Set::new();
    for i in 0..n {
        s.insert(T::new(base + i));
    }
    s
}

const OPS: &[&str] = &[
    "insert_new", "insert_dup", "insert_key_value_dup", "checked_insert_full_dup", "remove", "remove_entry", "get", "contains_key",
    "retain", "clear", "drain_partial", "clone", "eq", "from_iter", "entry_or_insert_with", "entry_and_modify", "entry_remove",
    "into_iter_for_each", "into_iter_fold", "into_iter_nth", "into_iter_last", "into_keys_for_each", "into_values_count", "drain_for_each", "drain_nth",
    "iter_fold", "set_insert_dup", "set_remove", "set_retain", "set_clone", "set_sub", "set_union_walk", "set_extend", "set_is_subset", "get_disjoint_mut",
    "clone_from", "collect_set_from_keys",
];

fn run(op: &str, k: i64) {
    reset();
    let mut m = map3(3);
    let mut other = map3(2);
    let mut s = set3(2, 0);
    let t = set3(3, 1);
    let probe = T::new(1);
    let fresh = T::new(50);
    let val = T::new(51);
    arm(k);
    let r = catch_unwind(AssertUnwindSafe(|| match op {
        "insert_new" => drop(other.insert(fresh, val)),
        "insert_dup" => drop(m.insert(probe, val)),
        "insert_key_value_dup" => drop(m.insert_key_value(probe, val)),
        "checked_insert_full_dup" => drop(m.checked_insert(probe, val)),
        "remove" => drop(m.remove(&probe)),
        "remove_entry" => drop(m.remove_entry(&probe)),
        "get" => {
            let _ = m.get(&probe);
            let _ = m.get_mut(&probe);
            let _ = m.get_key_value(&probe);
        }
        "contains_key" => {
            let _ = m.contains_key(&probe);
        }
        "retain" => m.retain(|kk, _| {
            tick("predicate");
            kk.key != 1
        }),
        "clear" => m.clear(),
        "drain_partial" => {
            let mut d = m.drain();
            drop(d.next());
        }
        "clone" => drop(m.clone()),
        "eq" => {
            let _ = m == other;
        }
        "from_iter" => {
            let src = (0..4u32).map(|i| {
                tick("source");
                (T::new(i % 3), T::new(i))
            });
            let c: Map<T, T, 3> = src.collect();
            drop(c);
        }
        "entry_or_insert_with" => {
            other.entry(fresh).or_insert_with(|| {
                tick("closure");
                val
            });
        }
        "entry_and_modify" => {
            let _ = m.entry(probe).and_modify(|_| tick("closure")).or_insert(val);
        }
        "entry_remove" => {
            if let micromap::Entry::Occupied(e) = m.entry(probe) {
                drop(e.remove_entry());
            }
        }
        "into_iter_for_each" => m.clone().into_iter().for_each(|x| {
            drop(x);
            tick("closure");
        }),
        "into_iter_fold" => {
            let _ = m.clone().into_iter().fold(0u32, |a, x| {
                let kx = x.0.key;
                drop(x);
                tick("closure");
                a + kx
            });
        }
        "into_iter_nth" => {
            let mut it = m.clone().into_iter();
            drop(it.nth(1));
            drop(it.next());
        }
        "into_iter_last" => drop(m.clone().into_iter().last()),
        "into_keys_for_each" => m.clone().into_keys().for_each(|x| {
            drop(x);
            tick("closure");
        }),
        "into_values_count" => {
            let _ = m.clone().into_values().count();
        }
        "drain_for_each" => m.drain().for_each(|x| {
            drop(x);
            tick("closure");
        }),
        "drain_nth" => {
            let mut d = m.drain();
            drop(d.nth(1));
        }
        "iter_fold" => {
            let _ = m.iter().fold(0u32, |a, (kk, _)| {
                tick("closure");
                a + kk.key
            });
        }
        "set_insert_dup" => {
            s.insert(probe);
        }
        "set_remove" => {
            s.remove(&probe);
        }
        "set_retain" => s.retain(|x| {
            tick("predicate");
            x.key != 0
        }),
        "set_clone" => drop(s.clone()),
        "set_sub" => drop(&t - &s),
        "set_union_walk" => {
            for _ in s.union(&t) {
                tick("loop body");
            }
            for _ in s.symmetric_difference(&t) {}
            let _ = s.intersection(&t).count();
        }
        "set_extend" => s.extend((0..3u32).map(|i| {
            tick("source");
            T::new(i)
        })),
        "set_is_subset" => {
            let _ = s.is_subset(&t);
            let _ = s.is_disjoint(&t);
        }
        "get_disjoint_mut" => {
            let a = T::new(0);
            let b = T::new(2);
            let _ = m.get_disjoint_mut([&a, &b]);
        }
        "clone_from" => other.clone_from(&m),
        "collect_set_from_keys" => {
            let c: Set<T, 3> = m
                .keys()
                .map(|kk| {
                    tick("closure");
                    T::new(kk.key)
                })
                .collect();
            drop(c);
        }
        _ => unreachable!(),
    }));
    disarm();
    let _ = r;
    wf_map(&m, op, k);
    wf_map(&other, op, k);
    wf_set(&s, op, k);
    wf_set(&t, op, k);
    drop(m);
    drop(other);
    drop(s);
    drop(t);
    verdict(op, k);
}

#[test]
fn one_injected_panic_per_run() {
    std::panic::set_hook(Box::new(|info| {
        if let Some(l) = info.location() {
            if l.file().ends_with("c04_panic_injection.rs") && !format!("{info}").contains("injected panic") {
                eprintln!("STANDIN-FAILED {}", info);
            }
        }
    }));
    for op in OPS {
        for k in 0..16 {
            run(op, k);
        }
    }
}
