// Bounded stand-in (native execution) for the part of C03 that no verifier here can
// observe: the state *after* the container's own panic has unwound.
// For capacities 0..=3, every safe insertion entry point, two slot orders of the full
// container, debug and release profile (the driver runs this file under both):
//   * the call panics,
//   * afterwards the container holds exactly its previous entries and is usable,
//   * the rejected key and value have been destroyed exactly once, nothing twice,
//   * after dropping the container every element was destroyed exactly once.
// Labelled BOUNDED in the evidence; never counted as proved.
use micromap::{Map, Set};
use std::cell::RefCell;
use std::panic::{catch_unwind, AssertUnwindSafe};

thread_local! {
    static DROPS: RefCell<Vec<u32>> = RefCell::new(Vec::new());
    static NEXT: RefCell<u32> = RefCell::new(0);
}

#[derive(Debug)]
struct T {
    id: u32,
    key: u32,
}
impl T {
    fn new(key: u32) -> T {
        let id = NEXT.with(|n| {
            *n.borrow_mut() += 1;
            *n.borrow()
        });
        T { id, key }
    }
}
impl PartialEq for T {
    fn eq(&self, o: &T) -> bool {
        self.key == o.key
    }
}
impl Default for T {
    fn default() -> T {
        T::new(9999)
    }
}
impl Drop for T {
    fn drop(&mut self) {
        DROPS.with(|d| d.borrow_mut().push(self.id));
    }
}
fn drops_of(id: u32) -> usize {
    DROPS.with(|d| d.borrow().iter().filter(|x| **x == id).count())
}
fn max_drops() -> usize {
    DROPS.with(|d| {
        let d = d.borrow();
        d.iter().map(|x| d.iter().filter(|y| *y == x).count()).max().unwrap_or(0)
    })
}
fn total_minted() -> u32 {
    NEXT.with(|n| *n.borrow())
}
fn reset() {
    DROPS.with(|d| d.borrow_mut().clear());
    NEXT.with(|n| *n.borrow_mut() = 0);
}

fn full_map<const N: usize>(shuffled: bool) -> Map<T, T, N> {
    let mut m: Map<T, T, N> = Map::new();
    for i in 0..N as u32 {
        m.insert(T::new(i), T::new(100 + i));
    }
    if shuffled && N >= 2 {
        // swap-remove the first entry and put it back: a different slot order
        let (k, v) = m.remove_entry(&T::new(0)).unwrap();
        m.insert(k, v);
    }
    m
}

fn check_map<const N: usize>(entry: usize, shuffled: bool) {
    reset();
    let mut m = full_map::<N>(shuffled);
    let before: Vec<(u32, u32)> = m.iter().map(|(k, v)| (k.id, v.id)).collect();
    assert_eq!(m.len(), N);
    let k = T::new(777);
    let v = T::new(778);
    let (kid, vid) = (k.id, v.id);
    let r = catch_unwind(AssertUnwindSafe(|| match entry {
        0 => {
            m.insert(k, v);
        }
        1 => {
            m.insert_key_value(k, v);
        }
        2 => {
            m.entry(k).or_insert(v);
        }
        3 => {
            m.entry(k).or_insert_with(|| v);
        }
        4 => {
            m.entry(k).or_insert_with_key(|_| v);
        }
        5 => {
            drop(v);
            m.entry(k).or_default();
        }
        6 => match m.entry(k) {
            micromap::Entry::Vacant(e) => {
                e.insert(v);
            }
            _ => unreachable!(),
        },
        _ => {
            m.extend_one_by_one(k, v);
        }
    }));
    assert!(r.is_err(), "N={N} entry={entry}: adding a new key to a full map did not panic");
    let after: Vec<(u32, u32)> = m.iter().map(|(k, v)| (k.id, v.id)).collect();
    assert_eq!(before, after, "N={N} entry={entry}: the map no longer holds exactly its previous entries");
    assert_eq!(m.len(), N, "N={N} entry={entry}: len changed");
    assert!(m.len() <= m.capacity());
    assert_eq!(drops_of(kid), 1, "N={N} entry={entry}: the rejected key was not destroyed exactly once");
    if entry != 5 {
        assert_eq!(drops_of(vid), 1, "N={N} entry={entry}: the rejected value was not destroyed exactly once");
    }
    assert!(max_drops() <= 1, "N={N} entry={entry}: something was destroyed twice");
    // still usable
    if N > 0 {
        assert!(m.remove(&T::new(0)).is_some());
        assert!(m.insert(T::new(0), T::new(5)).is_none());
        assert_eq!(m.len(), N);
    }
    drop(m);
    assert!(max_drops() <= 1, "N={N} entry={entry}: something was destroyed twice");
    let all = total_minted();
    for id in 1..=all {
        assert_eq!(drops_of(id), 1, "N={N} entry={entry}: element {id} was not destroyed exactly once overall");
    }
}

trait ExtendOne {
    fn extend_one_by_one(&mut self, k: T, v: T);
}
impl<const N: usize> ExtendOne for Map<T, T, N> {
    fn extend_one_by_one(&mut self, k: T, v: T) {
        // FromIterator is the only bulk path of Map; rebuild through collect
        let _m: Map<T, T, N> = std::iter::once((k, v)).chain((0..N as u32).map(|i| (T::new(i), T::new(200 + i)))).collect();
    }
}

fn check_set<const N: usize>(entry: usize) {
    reset();
    let mut s: Set<T, N> = Set::new();
    for i in 0..N as u32 {
        s.insert(T::new(i));
    }
    let before: Vec<u32> = s.iter().map(|k| k.id).collect();
    let k = T::new(777);
    let kid = k.id;
    let r = catch_unwind(AssertUnwindSafe(|| match entry {
        0 => {
            s.insert(k);
        }
        1 => {
            s.replace(k);
        }
        _ => {
            s.extend(std::iter::once(k));
        }
    }));
    assert!(r.is_err(), "Set N={N} entry={entry}: adding a new element to a full set did not panic");
    let after: Vec<u32> = s.iter().map(|k| k.id).collect();
    assert_eq!(before, after, "Set N={N} entry={entry}: the set no longer holds exactly its previous elements");
    assert_eq!(drops_of(kid), 1, "Set N={N} entry={entry}: the rejected element was not destroyed exactly once");
    drop(s);
    for id in 1..=total_minted() {
        assert_eq!(drops_of(id), 1, "Set N={N} entry={entry}: element {id} was not destroyed exactly once overall");
    }
}

/// print only the panics raised by this file's own assertions (the container's
/// expected panics would drown them)
fn quiet() {
    std::panic::set_hook(Box::new(|info| {
        if let Some(l) = info.location() {
            if l.file().ends_with("c03_full_reject.rs") {
                eprintln!("STANDIN-FAILED {}", info);
            }
        }
    }));
}

macro_rules! all_n {
    ($f:ident, $($arg:expr),*) => {{
        $f::<0>($($arg),*);
        $f::<1>($($arg),*);
        $f::<2>($($arg),*);
        $f::<3>($($arg),*);
    }};
}

#[test]
fn full_map_rejects_cleanly() {
    quiet();
    for entry in 0..8 {
        for shuffled in [false, true] {
            all_n!(check_map, entry, shuffled);
        }
    }
}

#[test]
fn full_set_rejects_cleanly() {
    quiet();
    for entry in 0..3 {
        all_n!(check_set, entry);
    }
}
