#!/bin/sh
# Offline setup: nothing to build ahead of time - every check rebuilds its scratch copy
# from /repo.  Only verify that the tools are present.
set -e
cd "$(dirname "$0")"
command -v cargo-kani >/dev/null || { echo "cargo-kani missing"; exit 1; }
command -v verus >/dev/null || { echo "verus missing"; exit 1; }
command -v rsync >/dev/null || { echo "rsync missing"; exit 1; }
python3 -c "import tomllib, json" 
mkdir -p evidence replay
echo "setup ok"
