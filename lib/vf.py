"""Driver library for the micromap contract-verification checks.

Back ends: Kani (real crate copied to a scratch dir, harness module and contract
attributes injected) and Verus (functions extracted verbatim, specs injected).
Exit codes: 0 held, 1 violation, 2 undecided / broken machinery.
"""
import hashlib
import json
import os
import re
import shutil
import subprocess
import sys
import tempfile
import time
import tomllib

VERIF = os.path.dirname(os.path.dirname(os.path.abspath(__file__)))
REPO = os.environ.get("VERIF_REPO", "/repo")
NCPU = os.cpu_count() or 4

ENV = dict(os.environ)
ENV.update({"CARGO_NET_OFFLINE": "true", "CARGO_TERM_COLOR": "never"})


def log(*a):
    print(*a, file=sys.stderr, flush=True)


# --------------------------------------------------------------------------
# scratch copy + injection
# --------------------------------------------------------------------------

class Undecided(Exception):
    pass


def make_scratch(tag):
    d = tempfile.mkdtemp(prefix=f"micromap-verif-{tag}-", dir=os.environ.get("VERIF_TMP", "/tmp"))
    subprocess.run(["rsync", "-a", "--exclude", "/target", "--exclude", "/.git",
                    REPO + "/", d + "/"], check=True)
    return d


def load_contracts():
    with open(os.path.join(VERIF, "kani", "contracts.toml"), "rb") as f:
        return tomllib.load(f).get("contract", [])


def inject_kani(scratch, want_contracts=True, for_replay=False):
    """Adds the harness module, contract attributes and body hooks to the scratch
    copy.  Returns (lost_anchors, applied) - names of anchors that were not found."""
    lost, applied = [], []
    lib = os.path.join(scratch, "src", "lib.rs")
    src = open(lib).read()
    src = ("#![cfg_attr(kani, feature(stmt_expr_attributes, proc_macro_hygiene))]\n" if False else "") + src
    src += "\n#[cfg(kani)]\n#[allow(warnings)]\nmod verif_kani;\n"
    if for_replay:
        # replay only: the native test build force-warns unstable features, which the
        # crate's deny(warnings) would turn into an error.  Lint level only.
        src = src.replace("#![deny(warnings)]", "#![warn(warnings)]")
    open(lib, "w").write(src)
    dst = os.path.join(scratch, "src", "verif_kani")
    shutil.copytree(os.path.join(VERIF, "kani", "verif_kani"), dst)
    for c in load_contracts():
        path = os.path.join(scratch, c["file"])
        if not os.path.exists(path):
            lost.append(c["name"])
            continue
        lines = open(path).read().split("\n")
        rx = re.compile(c["anchor"])
        hits = [i for i, l in enumerate(lines) if rx.search(l)]
        if len(hits) != 1:
            lost.append(c["name"])
            continue
        i = hits[0]
        kind = c.get("kind", "attr")
        if kind == "attr":
            if not want_contracts:
                continue
            indent = re.match(r"\s*", lines[i]).group(0)
            new = [indent + "#[cfg_attr(kani, %s)]" % a for a in c["attrs"]]
            lines[i:i] = new
        elif kind == "stmt_after":
            indent = re.match(r"\s*", lines[i]).group(0)
            lines[i + 1:i + 1] = [indent + "#[cfg(kani)] " + s for s in c["stmts"]]
        applied.append(c["name"])
        open(path, "w").write("\n".join(lines))
    if for_replay:
        ct = os.path.join(scratch, "Cargo.toml")
        t = open(ct).read()
        t = re.sub(r"\[dev-dependencies\].*?(?=\n\[)", "", t, flags=re.S)
        t = re.sub(r"\[\[bench\]\].*", "", t, flags=re.S)
        open(ct, "w").write(t)
        for sub in ("benches", "tests", "examples"):
            shutil.rmtree(os.path.join(scratch, sub), ignore_errors=True)
    return lost, applied


def prepare(tag, units, want_contracts=False, for_replay=False, extra_tests=()):
    """scratch copy of /repo with harness module, generated instantiations, contracts"""
    import units as U
    scratch = make_scratch(tag)
    lost, applied = inject_kani(scratch, want_contracts=want_contracts, for_replay=for_replay)
    g = os.path.join(scratch, "src", "verif_kani", "gen.rs")
    with open(g, "w") as f:
        f.write(U.gen_rs(units))
        for s in extra_tests:
            f.write("\n" + s + "\n")
    with open(os.path.join(scratch, "src", "verif_kani", "mod.rs"), "a") as f:
        f.write("\npub mod gen;\n")
    return scratch, lost


# --------------------------------------------------------------------------
# Kani
# --------------------------------------------------------------------------

KANI_Z = ["-Z", "function-contracts", "-Z", "stubbing", "-Z", "unstable-options",
          "-Z", "mem-predicates"]

MEMSAFE_PAT = re.compile(
    r"dereference failure|pointer (NULL|invalid|outside|relation)|deallocated|dead object|"
    r"memory leak|misaligned|invalid (value|pointer)|Undefined Behavior|"
    r"uninitialized|assigns|assignable|is freeable|same object violation|double free|"
    r"free argument|valid_value|transmute", re.I)


def run_kani(scratch, harnesses, profile="debug", features=(), jobs=None,
             harness_timeout="15m", extra=()):
    """Runs cargo kani for the given harness paths.  Returns dict harness -> result."""
    out_json = os.path.join(scratch, "kani-out-%s.json" % profile)
    if os.path.exists(out_json):
        os.remove(out_json)
    cmd = ["cargo", "kani"] + KANI_Z + ["--output-format=terse",
           "-j", str(jobs or NCPU), "--exact", "--export-json", out_json,
           "--harness-timeout", harness_timeout]
    for h in harnesses:
        cmd += ["--harness", h]
    if features:
        cmd += ["--features", ",".join(features)]
    cmd += list(extra)
    env = dict(ENV)
    if profile == "release":
        env["RUSTFLAGS"] = (env.get("RUSTFLAGS", "") + " -C debug-assertions=off").strip()
    t0 = time.time()
    p = subprocess.run(cmd, cwd=scratch, env=env, stdout=subprocess.PIPE,
                       stderr=subprocess.STDOUT, text=True)
    wall = time.time() - t0
    text = p.stdout
    res = {}
    if os.path.exists(out_json):
        try:
            d = json.load(open(out_json))
        except Exception as e:  # noqa
            d = None
        if d:
            stats = {c["harness_id"]: (c.get("cbmc_stats") or {}) for c in d.get("cbmc", [])}
            for r in d.get("verification_results", {}).get("results", []):
                hid = r["harness_id"]
                checks = r.get("checks", [])
                res[hid] = {
                    "status": r.get("status"),
                    "duration_s": r.get("duration_ms", 0) / 1000.0,
                    "checks": checks,
                    "n_checks": len(checks),
                    "solver_s": (stats.get(hid) or {}).get("runtime_decision_procedure_s"),
                    "symex_s": (stats.get(hid) or {}).get("runtime_symex_s"),
                }
    # harnesses that produced no structured result (compile error, timeout, crash)
    compile_error = ("error: could not compile" in text or "error[E" in text
                     or re.search(r"^error: ", text, re.M) is not None) and not res
    for h in harnesses:
        if h not in res:
            why = "no result"
            if compile_error:
                why = "compile error"
            elif re.search(r"timed out|timeout", text, re.I):
                why = "timeout"
            res[h] = {"status": "Undecided", "why": why, "checks": [], "n_checks": 0,
                      "duration_s": None}
    return res, text, wall, cmd


def failed_checks(r):
    return [c for c in r["checks"] if c.get("status") == "Failure"]


def check_loc(c):
    loc = c.get("location") or {}
    f = loc.get("file", "?")
    return "%s:%s" % (f, loc.get("line", "?"))


def short_check(c):
    d = c.get("description") or ""
    if d.startswith("This is a placeholder message"):
        # Kani cannot render panic messages that are formatted at run time
        d = "panic / assert! / debug_assert! with a formatted message in %s (%s)" % (c.get("function"), check_loc(c))
    return {"description": d, "category": c.get("category"),
            "function": c.get("function"), "location": check_loc(c)}


def is_harness_check(c):
    return "src/verif_kani/" in check_loc(c) or (c.get("function") or "").startswith("verif_kani::")


def own_panic(c):
    """a panic/assert raised by the crate itself (any function under src/, whatever its name),
    or by core's panic helpers on its behalf - as opposed to a harness assertion or a
    memory-safety check"""
    loc = check_loc(c)
    fn = c.get("function") or ""
    if is_harness_check(c) or MEMSAFE_PAT.search(c.get("description") or ""):
        return False
    if loc.startswith("src/") and (c.get("category") in ("assertion", "bounds_check", None) or True):
        return True
    return bool(re.search(r"core::option::expect_failed|core::panicking|core::result::unwrap_failed|core::slice::index", fn))


def classify_harness(unit_expect, r):
    """Returns (verdict, detail).  verdict in {'pass','violation','undecided','broken'}."""
    if r["status"] == "Undecided":
        return "undecided", r.get("why", "no result")
    checks = r["checks"]
    if not checks:
        return "undecided", "no checks reported for this harness (timeout, out of memory or crash)"
    fails = failed_checks(r)
    unwind_fail = [c for c in fails if "unwinding assertion" in (c.get("description") or "")]
    undet = [c for c in checks if c.get("status") in ("Undetermined", "Error")]
    unsupported = [c for c in fails if re.search(r"not currently supported|unsupported|Only a single top-level call to function",
                                                 c.get("description") or "", re.I)]
    covers = [c for c in checks if c.get("category") == "cover"
              or c.get("status") in ("Satisfied", "Unsatisfiable", "Unreachable")
              and "cover" in (c.get("category") or "")]
    sat = [c for c in checks if c.get("status") == "Satisfied"]
    if unsupported:
        return "undecided", "tool limitation, not a verdict: " + unsupported[0]["description"][:200]
    hbug = [c for c in fails if (c.get("description") or "").strip('"').startswith("harness:")]
    if hbug:
        # an assertion about the harness's own bookkeeping (ledger size, reference iterator
        # exhausted ...) failed: the harness is wrong for this instance, nothing is decided
        return "broken", "harness self-check failed: " + hbug[0]["description"]
    if unit_expect["kind"] == "pass":
        real = [c for c in fails if c not in unwind_fail]
        if real:
            return "violation", real
        if unwind_fail:
            return "undecided", "unwinding bound exceeded (%s)" % check_loc(unwind_fail[0])
        if undet and r["status"] != "Success":
            return "undecided", "undetermined checks"
        if not sat:
            return "broken", "vacuous: reachability cover not satisfied"
        if r["status"] != "Success":
            return "undecided", "status %s without failed checks" % r["status"]
        return "pass", None
    if unit_expect["kind"] == "maypanic":
        # wrong answers and the container's own panics are tolerated; harness assertions
        # (ownership, len, aliasing) and memory-safety checks are not
        pats = [re.compile(p) for p in unit_expect["allow"]]
        bad = []
        for c in fails:
            if c in unwind_fail:
                continue
            desc = c.get("description") or ""
            s = desc + " || " + (c.get("function") or "") + " @ " + check_loc(c)
            if is_harness_check(c) or MEMSAFE_PAT.search(desc) or not (own_panic(c) or any(p.search(s) for p in pats)):
                bad.append(c)
        if bad:
            return "violation", bad
        if unwind_fail:
            return "undecided", "unwinding bound exceeded (%s)" % check_loc(unwind_fail[0])
        if not sat:
            return "broken", "vacuous: reachability cover not satisfied"
        return "pass", None
    if unit_expect["kind"] == "panic":
        # the call must not return, only the container's own panic may fail,
        # and no memory-safety check may fail
        pats = [re.compile(p) for p in unit_expect["allow"]]
        bad = []
        expected_hit = False
        for c in fails:
            if c in unwind_fail:
                continue
            desc = c.get("description") or ""
            where = (c.get("function") or "") + " @ " + check_loc(c)
            s = desc + " || " + where
            if is_harness_check(c) or MEMSAFE_PAT.search(desc):
                # a harness assertion (the call returned / state changed) or a memory-safety
                # check (a write outside the container) - never an acceptable way to fail
                bad.append(c)
            elif own_panic(c) or any(p.search(s) for p in pats):
                expected_hit = True
            else:
                bad.append(c)
        if bad:
            return "violation", bad
        if unwind_fail:
            return "undecided", "unwinding bound exceeded"
        if not expected_hit:
            return "violation", [{"description": "expected panic did not occur (no failing check at the "
                                  "container's own panic site; harness marker unreachable or call returned)",
                                  "category": "expected_panic", "function": "", "location": {}}]
        if not sat:
            return "broken", "vacuous: reachability cover before the call not satisfied"
        return "pass", None
    if unit_expect["kind"] == "canary":
        if fails:
            return "pass", None
        return "broken", "canary harness did not fail: the pipeline cannot report failures"
    raise ValueError(unit_expect)


def kani_playback(unit, profile, features, replay_path, meta):
    """Re-runs one failing harness with concrete playback, then replays the
    generated unit test natively against the real crate.  Returns dict."""
    out = {"attempted": True}
    scratch, _ = prepare("pb", [unit["unit"]], want_contracts=unit.get("contracts", False), for_replay=True)
    try:
        env = dict(ENV)
        if profile == "release":
            env["RUSTFLAGS"] = "-C debug-assertions=off"
        cmd = ["cargo", "kani"] + KANI_Z + ["-Z", "concrete-playback",
               "--concrete-playback=inplace", "--exact", "--harness", meta["harness"],
               "--harness-timeout", "20m"]
        if features:
            cmd += ["--features", ",".join(features)]
        p = subprocess.run(cmd, cwd=scratch, env=env, stdout=subprocess.PIPE,
                           stderr=subprocess.STDOUT, text=True)
        tests = re.findall(r"kani_concrete_playback_\w+", p.stdout)
        tests = sorted(set(tests))
        out["playback_tests"] = tests
        # collect generated test sources
        gen = []
        for root, _, files in os.walk(os.path.join(scratch, "src", "verif_kani")):
            for fn in files:
                t = open(os.path.join(root, fn)).read()
                for m in re.finditer(r"(?:///[^\n]*\n)*\s*#\[test\]\s*\nfn (kani_concrete_playback_\w+)\(\) \{.*?\n\}\n", t, re.S):
                    gen.append({"file": os.path.relpath(os.path.join(root, fn), os.path.join(scratch, "src", "verif_kani")),
                                "name": m.group(1), "source": m.group(0)})
        out["generated"] = gen
        if not gen:
            out["native"] = "no-counterexample"
            return out
        out["native"] = native_replay_in(scratch, features, profile)
        return out
    finally:
        shutil.rmtree(scratch, ignore_errors=True)


def native_replay_in(scratch, features, profile):
    cmd = ["cargo", "kani", "playback", "-Z", "concrete-playback", "--lib"]
    if features:
        cmd += ["--features", ",".join(features)]
    cmd += ["--", "kani_concrete_playback", "--test-threads", "1"]
    env = dict(ENV)
    env["RUST_BACKTRACE"] = "0"
    if profile == "release":
        env["RUSTFLAGS"] = "-C debug-assertions=off"
    p = subprocess.run(cmd, cwd=scratch, env=env, stdout=subprocess.PIPE,
                       stderr=subprocess.STDOUT, text=True)
    txt = p.stdout
    panics = re.findall(r"panicked at ([^\n]*)\n([^\n]*)", txt)
    m = re.search(r"test result: (\w+)\. (\d+) passed; (\d+) failed", txt)
    sig = re.search(r"signal: \d+[^\n]*|SIGSEGV|SIGABRT|stack overflow", txt)
    # a panic inside Kani's playback shim ("Not enough det vals found") means the run went
    # *past* the recorded failure point and asked for more inputs: the failure did not reproduce
    real = [(a, b) for a, b in panics if "concrete_playback.rs" not in a]
    return {"cmd": " ".join(cmd), "result": m.group(0) if m else None,
            "failed_natively": bool(m and int(m.group(3)) > 0 and real) or bool(sig),
            "signal": sig.group(0) if sig else None,
            "panics": [{"at": a, "msg": b} for a, b in panics][:6],
            "tail": "\n".join(l for l in txt.split("\n") if not l.startswith("warning")
                               and "-->" not in l)[-1500:]}


# --------------------------------------------------------------------------
# Verus: extraction + spec injection
# --------------------------------------------------------------------------

def strip_comment_lines(text):
    return text


class RustScanner:
    """Comment/string aware scanner for locating items and matching braces."""

    def __init__(self, text):
        self.t = text
        self.n = len(text)
        self.code = self._mask()

    def _mask(self):
        # returns a same-length string where comments/strings/chars are replaced by spaces
        t, n = self.t, self.n
        out = list(t)
        i = 0
        while i < n:
            c = t[i]
            if t.startswith("//", i):
                j = t.find("\n", i)
                j = n if j < 0 else j
                for k in range(i, j):
                    out[k] = " "
                i = j
            elif t.startswith("/*", i):
                depth, j = 1, i + 2
                while j < n and depth:
                    if t.startswith("/*", j):
                        depth += 1; j += 2
                    elif t.startswith("*/", j):
                        depth -= 1; j += 2
                    else:
                        j += 1
                for k in range(i, j):
                    if out[k] != "\n":
                        out[k] = " "
                i = j
            elif c == '"':
                j = i + 1
                while j < n and t[j] != '"':
                    j += 2 if t[j] == "\\" else 1
                for k in range(i + 1, j):
                    if out[k] != "\n":
                        out[k] = " "
                i = j + 1
            elif c == "'":
                # char literal or lifetime
                m = re.match(r"'(\\.[^']*|[^'\\])'", t[i:i + 12])
                if m:
                    for k in range(i + 1, i + m.end() - 1):
                        out[k] = " "
                    i += m.end()
                else:
                    i += 1
            else:
                i += 1
        return "".join(out)

    def match_brace(self, open_idx):
        assert self.code[open_idx] == "{", self.t[open_idx:open_idx + 20]
        depth = 0
        for j in range(open_idx, self.n):
            ch = self.code[j]
            if ch == "{":
                depth += 1
            elif ch == "}":
                depth -= 1
                if depth == 0:
                    return j
        raise Undecided("unbalanced braces")

    def find_fn(self, sig_regex, start=0, end=None):
        """Finds `fn` item whose signature text matches; returns (sig_start, body_open, body_close)."""
        rx = re.compile(sig_regex)
        hits = [m for m in rx.finditer(self.code, start, end if end else self.n)]
        if len(hits) != 1:
            raise Undecided("anchor %r matched %d times" % (sig_regex, len(hits)))
        m = hits[0]
        bo = self.code.find("{", m.end() - 1)
        # signature may contain where clauses; first '{' at depth 0 of parens
        bc = self.match_brace(bo)
        return m.start(), bo, bc


def sha(s):
    return hashlib.sha256(s.encode()).hexdigest()[:16]


def run_verus(path, timeout=600, extra=()):
    cmd = ["verus", path, "--output-json", "--time", "--multiple-errors", "30"] + list(extra)
    t0 = time.time()
    try:
        p = subprocess.run(cmd, stdout=subprocess.PIPE, stderr=subprocess.PIPE, text=True,
                           timeout=timeout, env=ENV)
    except subprocess.TimeoutExpired:
        return {"status": "timeout", "cmd": " ".join(cmd), "wall": time.time() - t0}
    wall = time.time() - t0
    js = None
    try:
        js = json.loads(p.stdout)
    except Exception:
        # stdout may contain non-json prefix
        i = p.stdout.find("{")
        try:
            js = json.loads(p.stdout[i:])
        except Exception:
            js = None
    return {"status": "ran", "rc": p.returncode, "json": js, "stderr": p.stderr,
            "stdout": p.stdout if js is None else "", "cmd": " ".join(cmd), "wall": wall}


# --------------------------------------------------------------------------
# evidence
# --------------------------------------------------------------------------

def write_evidence(pid, ev):
    # runs against a patched copy of the repository (lib/seedtest.py) must not overwrite the evidence of /repo
    evdir = os.environ.get("VERIF_EVIDENCE_DIR") or os.path.join(VERIF, "evidence")
    os.makedirs(evdir, exist_ok=True)
    path = os.path.join(evdir, pid + ".json")
    tmp = path + ".tmp"
    with open(tmp, "w") as f:
        json.dump(ev, f, indent=1, sort_keys=False)
    os.replace(tmp, path)
    return path


def repo_state():
    try:
        head = subprocess.run(["git", "-C", REPO, "rev-parse", "HEAD"], stdout=subprocess.PIPE,
                              text=True).stdout.strip()
        dirty = subprocess.run(["git", "-C", REPO, "status", "--porcelain", "--", "src", "Cargo.toml"],
                               stdout=subprocess.PIPE, text=True).stdout.strip()
        return {"head": head, "dirty": bool(dirty)}
    except Exception:
        return {"head": None, "dirty": None}
