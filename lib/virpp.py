#!/usr/bin/env python3
"""rough pretty-printer for Verus crate.vir: prints requires/ensures of functions matching a pattern"""
import sys, re
def tokenize(s):
    i, n = 0, len(s)
    while i < n:
        c = s[i]
        if c in '()':
            yield c; i += 1
        elif c == '"':
            j = i + 1
            while s[j] != '"':
                if s[j] == '\\': j += 1
                j += 1
            yield s[i:j+1]; i = j + 1
        elif c.isspace():
            i += 1
        else:
            j = i
            while j < n and not s[j].isspace() and s[j] not in '()':
                j += 1
            yield s[i:j]; i = j
def parse(tokens):
    st = [[]]
    for t in tokens:
        if t == '(':
            st.append([])
        elif t == ')':
            x = st.pop(); st[-1].append(x)
        else:
            st[-1].append(t)
    return st[0]
def kw(node, key):
    for i, x in enumerate(node):
        if x == key and i + 1 < len(node):
            return node[i+1]
    return None
def path(f):
    # (Fun :path a::b)
    if isinstance(f, list):
        p = kw(f, ':path')
        if p: return p
        return ' '.join(map(str, flat(f)))
    return str(f)
def flat(x):
    if isinstance(x, list):
        for y in x: yield from flat(y)
    else: yield x
def short(p):
    p = str(p)
    parts = p.split('::')
    return '::'.join(parts[-2:]) if len(parts) > 2 else p
def typ(t):
    if not isinstance(t, list): return str(t)
    if t and t[0] == 'Typ':
        k = t[1]
        if k == 'TypParam': return t[2].strip('"')
        if k == 'Datatype':
            dt = t[2]
            name = dt[2] if dt[1] == 'Path' else 'Tuple'
            args = ', '.join(typ(a) for a in t[3])
            return '%s<%s>' % (short(name), args) if args else short(name)
        if k == 'Decorate':
            d = ' '.join(flat(t[2]))
            return ('&' if 'Ref' == t[2][1] else '[%s]' % d) + typ(t[-1])
        if k == 'MutRef': return '&mut ' + typ(t[2])
        if k == 'Projection':
            a = kw(t, ':trait_typ_args'); return '<%s>::%s' % (', '.join(typ(x) for x in a), kw(t, ':name').strip('"'))
        if k == 'Int': return ' '.join(flat(t[2]))
        if k == 'Bool': return 'bool'
        return ' '.join(flat(t[1:]))[:80]
    return ' '.join(flat(t))[:80]
BIN = {'Eq': '==', 'Ne': '!=', 'And':'&&','Or':'||','Implies':'==>', 'Le':'<=','Lt':'<','Ge':'>=','Gt':'>','Add':'+','Sub':'-','Mul':'*'}
def place(p):
    # (@@ span (Place Kind ...) typ)
    if isinstance(p, list) and p and p[0] in ('@@','@'):
        return place(p[2])
    if isinstance(p, list) and p and p[0] == 'Place':
        k = p[1]
        if k == 'Local': return p[2][1].strip('"')
        if k == 'DerefMut': return '*' + place(p[2])
        if k == 'Temporary': return expr(p[2])
        if k == 'Field':
            return '%s.%s' % (place(p[-1]) if isinstance(p[-1], list) else '?', ' '.join(flat(p[2:-1]))[:40])
        return k + '(' + ' '.join(place(x) if isinstance(x, list) else str(x) for x in p[2:]) + ')'
    return expr(p)
def expr(e):
    if not isinstance(e, list): return str(e)
    if e and e[0] in ('@@', '@'):
        return expr(e[2])
    if e and e[0] == '>':
        k = e[1]
        a = e[2:]
        if k == 'Const': return ' '.join(flat(a[0][1:]))
        if k == 'Var' : return a[0][1].strip('"') if isinstance(a[0], list) else str(a[0])
        if k == 'ReadPlace': return place(a[0])
        if k == 'Old': return 'old(%s)' % expr(a[0])
        if k == 'Unary':
            op = ' '.join(flat(a[0]))
            if 'Trigger' in op: return expr(a[1])
            if 'MutRefFuture' in op: return 'final(%s)' % expr(a[1])
            if op.startswith('UnaryOp Not'): return '!(%s)' % expr(a[1])
            if 'Clip' in op or 'CoerceMode' in op: return expr(a[1])
            return '%s(%s)' % (op.replace('UnaryOp ', ''), expr(a[1]))
        if k == 'UnaryOpr':
            o = a[0]
            if o[1] == 'IsVariant': return '(%s is %s)' % (expr(a[1]), kw(o, ':variant').strip('"'))
            if o[1] == 'Field':
                fo = o[2] if isinstance(o[2], list) else o
                return '%s->%s.%s' % (expr(a[1]), str(kw(fo, ':variant')).strip('"'), str(kw(fo, ':field')).strip('"'))
            if o[1] in ('Box','Unbox','CustomErr'): return expr(a[1])
            return '%s(%s)' % (o[1], expr(a[1]))
        if k in ('Binary', 'Logical'):
            o = a[0]
            op = BIN.get(o[1] if o[0] != 'BinaryOp' or o[1] not in ('Inequality','Arith') else (o[2][1] if isinstance(o[2], list) else o[2]), ' '.join(flat(o)))
            return '(%s %s %s)' % (expr(a[1]), op, expr(a[2]))
        if k == 'Multi':
            try:
                ops = [BIN.get(x[2][1], '?') for x in a[0][2]] if a[0][1] == 'Chained' else ['?']
            except Exception:
                ops = ['<?'] * 8
            xs = [expr(x) for x in a[1]]
            s = xs[0]
            for o, x in zip(ops, xs[1:]): s += ' %s %s' % (o, x)
            return '(' + s + ')'
        if k == 'Quant':
            q = a[0][0]
            bs = ', '.join('%s: %s' % (b[1], typ(b[2])) for b in a[1])
            return '%s|%s| %s' % (q.lower(), bs, expr(a[2]))
        if k == 'Call':
            tgt = kw(e, ':target')
            args = kw(e, ':args') or []
            name = '?'
            if tgt[1] == 'Fun':
                name = short(path(tgt[3]))
                targs = tgt[4] if len(tgt) > 4 else []
            elif tgt[1] == 'BuiltinSpecFun':
                name = tgt[2][1]
            else:
                name = ' '.join(flat(tgt[1:3]))[:60]
            return '%s(%s)' % (name, ', '.join(expr(x) for x in args))
        if k == 'Ctor':
            dt = a[0]; var = a[1]
            fields = a[2] if len(a) > 2 and isinstance(a[2], list) else []
            fs = ', '.join(expr(f[2]) if isinstance(f, list) and len(f) > 2 else str(f) for f in fields)
            return '%s(%s)' % (str(var).strip('"'), fs)
        if k == 'If':
            return 'if %s { %s } else { %s }' % (expr(a[0]), expr(a[1]), expr(a[2]) if len(a) > 2 else '')
        if k == 'Block':
            return '{ ' + '; '.join(expr(x) for x in a) + ' }'
        if k == 'Match':
            return 'match %s { %s }' % (place(a[0]), ' | '.join(arm(x) for x in a[1]))
        if k == 'Closure' or k == 'NonSpecClosure':
            return k + '{..}'
        if k == 'Choose':
            return 'choose ' + ' '.join(expr(x) if isinstance(x, list) and x and x[0] in ('@@','>') else '' for x in a)
        if k == 'WithTriggers': return expr(a[-1])
        return k + '[' + ' '.join(expr(x) if isinstance(x, list) and x and x[0] in ('@@','@','>') else (str(x) if not isinstance(x, list) else '..') for x in a)[:200] + ']'
    return '(' + ' '.join(expr(x) if isinstance(x, list) else str(x) for x in e)[:200] + ')'
def arm(a):
    # (@@ span (Arm :pattern .. :guard .. :body ..))
    try:
        x = a[2] if a[0] in ('@@','@') else a
        return '%s => %s' % (' '.join(flat(kw(x, ':pattern')))[:80], expr(kw(x, ':body')))
    except Exception:
        return '?'
def main():
    pat = re.compile(sys.argv[2])
    txt = open(sys.argv[1]).read()
    # split into top-level forms starting with (@ "..." (Function
    idx = [m.start() for m in re.finditer(r'^\(@ "[^"]*" \(Function', txt, re.M)]
    idx.append(len(txt))
    for a, b in zip(idx, idx[1:]):
        chunk = txt[a:b]
        m = re.search(r':name \(Fun :path (\S+?)\)', chunk)
        if not m or not pat.search(m.group(1)): continue
        end = chunk.rfind('\n(@ ')
        form = parse(tokenize(chunk))[0]
        f = form[2]
        print('=' * 20, m.group(1))
        params = kw(f, ':params') or []
        print('  params:', ', '.join('%s: %s' % (kw(p[2], ':name')[1].strip('"'), typ(kw(p[2], ':typ'))) for p in params))
        r = kw(f, ':ret')
        if r: print('  ret:', kw(r[2], ':name')[1].strip('"'), ':', typ(kw(r[2], ':typ')))
        tb = kw(f, ':typ_bounds')
        req = kw(f, ':require') or []
        for x in req: print('  requires', expr(x))
        ens = kw(f, ':ensure') or []
        if ens and ens[0] == 'tuple':
            for grp in ens[1:]:
                for x in grp: print('  ensures ', expr(x))
        else:
            for x in ens: print('  ensures ', expr(x))
        body = kw(f, ':body')
        if body and body != 'None' and len(sys.argv) > 3:
            print('  body:', expr(body[1] if body[0] == 'Some' else body))
main()
