#!/usr/bin/env python3
"""Rewrites the table between <!-- SEEDED-TABLE --> markers in DESIGN.md from seeded/*/meta.json."""
import json
import os
import re

VERIF = os.path.dirname(os.path.dirname(os.path.abspath(__file__)))


def main():
    rows = ["| seed | what was changed (written without access to /verif) | needs, to manifest | caught by (first violation reported) | tier |", "|---|---|---|---|---|"]
    n = caught = 0
    for d in sorted(os.listdir(os.path.join(VERIF, "seeded"))):
        mp = os.path.join(VERIF, "seeded", d, "meta.json")
        if not os.path.exists(mp):
            continue
        m = json.load(open(mp))
        n += 1
        best, tier = "**missed**", "-"
        for k, v in (m.get("checks_run") or {}).items():
            if v["exit"] == 1 and v["violations"]:
                best = v["violations"][0].replace("|", "\\|")[:170]
                tier = k
                caught += 1
                break
            if v["exit"] == 1:
                best, tier = "violation", k
                caught += 1
                break
            if v["exit"] == 2:
                best, tier = "**not reported**: undecided (exit 2)", k
        s = re.sub(r"\s+", " ", m.get("summary") or "")[:150].replace("|", "\\|")
        nd = re.sub(r"\s+", " ", m.get("needs_to_manifest") or "")[:110].replace("|", "\\|")
        rows.append("| %s | %s | %s | %s | %s |" % (d, s, nd, best, tier))
    table = "\n".join(rows) + "\n\n%d of %d seeded changes are reported as VIOLATION (exit 1) by the check of the property they break.\n" % (caught, n)
    p = os.path.join(VERIF, "DESIGN.md")
    t = open(p).read()
    a, b = "<!-- SEEDED-TABLE -->", "<!-- /SEEDED-TABLE -->"
    if a in t:
        t = t[:t.index(a) + len(a)] + "\n" + table + t[t.index(b):]
        open(p, "w").write(t)
    print(caught, "of", n)


if __name__ == "__main__":
    main()
