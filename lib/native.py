"""Bounded stand-ins: native tests against the real crate for clauses no verifier here
can observe (state after unwinding).  Labelled bounded, never counted as proved."""
import os
import re
import shutil
import subprocess

import vf

PI = ("c04_panic_injection.rs", "one injected panic per run at the k-th user callback (eq, clone, drop, predicate, closure, source iterator), k in 0..16, "
      "37 operations on capacity-3 containers incl. the derived iterator methods: nothing destroyed twice, no destructor on garbage, containers well-formed afterwards (debug and release)")
STANDINS = {
    "C04": [PI],
    "C02": [PI],
    "C03": [("c03_full_reject.rs", "after the container's own panic has unwound: contents unchanged, usable, rejected key/value destroyed exactly once "
             "(N in 0..=3, 8 Map and 3 Set entry points, 2 slot orders; debug and release)")],
    "C05": [("c03_full_reject.rs", "len() <= capacity() and contents unchanged after the container's own overflow panic (N in 0..=3; debug and release)")],
}


def run_for(prop):
    out = []
    for fname, what in STANDINS.get(prop, []):
        scratch = vf.make_scratch("native")
        try:
            ct = os.path.join(scratch, "Cargo.toml")
            t = open(ct).read()
            t = re.sub(r"\[dev-dependencies\].*?(?=\n\[)", "", t, flags=re.S)
            t = re.sub(r"\[\[bench\]\].*", "", t, flags=re.S)
            open(ct, "w").write(t)
            shutil.rmtree(os.path.join(scratch, "benches"), ignore_errors=True)
            for f in os.listdir(os.path.join(scratch, "tests")):
                os.remove(os.path.join(scratch, "tests", f))
            shutil.copy(os.path.join(vf.VERIF, "native", fname), os.path.join(scratch, "tests", fname))
            test = fname[:-3]
            for profile in ("debug", "release"):
                cmd = ["cargo", "test", "--offline", "--test", test] + (["--release"] if profile == "release" else []) + ["--", "--test-threads", "1"]
                p = subprocess.run(cmd, cwd=scratch, env=vf.ENV, stdout=subprocess.PIPE, stderr=subprocess.STDOUT, text=True)
                m = re.search(r"test result: (\w+)\. (\d+) passed; (\d+) failed", p.stdout)
                msgs = re.findall(r"STANDIN-FAILED (.*(?:\n.*)?)", p.stdout)
                row = {"standin": fname, "what": what, "profile": profile, "cmd": " ".join(cmd),
                       "bounded": True, "tests_passed": int(m.group(2)) if m else 0, "tests_failed": int(m.group(3)) if m else None}
                if m is None:
                    row["status"] = "undecided"
                    row["why"] = p.stdout[-600:]
                elif int(m.group(3)) > 0 or p.returncode != 0:
                    row["status"] = "failed"
                    row["messages"] = [x.strip()[:400] for x in msgs][:4] or [p.stdout[-600:]]
                else:
                    row["status"] = "passed"
                out.append(row)
        finally:
            shutil.rmtree(scratch, ignore_errors=True)
    return out
