#!/usr/bin/env python3
"""Confirms a seeded change (patch.diff + demo.rs + meta.json) and runs the checks against it.

usage: seedtest.py confirm <seed-dir> [...]     build+tests with patch, demo fails with / passes without
       seedtest.py run <seed-dir> [--tier T] [--props C01,C05]   run ./check against a patched copy
Patched copies live under /tmp and are removed afterwards; /repo is never touched.
"""
import json
import os
import re
import shutil
import subprocess
import sys
import time

VERIF = os.path.dirname(os.path.dirname(os.path.abspath(__file__)))
REPO = "/repo"
TARGET = "/tmp/seed-target"
ENV = dict(os.environ, CARGO_NET_OFFLINE="true", CARGO_TARGET_DIR=TARGET)


def sh(cmd, cwd, env=None, timeout=1800, target=None):
    env = dict(ENV if env is None else env)
    if target:
        env["CARGO_TARGET_DIR"] = target
    p = subprocess.run(cmd, cwd=cwd, env=env, shell=isinstance(cmd, str), stdout=subprocess.PIPE,
                       stderr=subprocess.STDOUT, text=True, timeout=timeout)
    return p.returncode, p.stdout


def copy_repo(tag, patch=None):
    d = "/tmp/sr-" + tag
    shutil.rmtree(d, ignore_errors=True)
    subprocess.run(["rsync", "-a", "--exclude", "/target", "--exclude", "/.git", REPO + "/", d + "/"], check=True)
    if patch:
        rc, out = sh(["git", "apply", "--verbose", os.path.abspath(patch)], d)
        if rc != 0:
            raise RuntimeError("patch does not apply: " + out[-500:])
    subprocess.run("find src tests -name '*.rs' | xargs touch", cwd=d, shell=True)
    return d


def demo_flags(seed):
    meta = json.load(open(os.path.join(seed, "meta.json")))
    txt = open(os.path.join(seed, "demo.rs")).read()[:1500] + json.dumps(meta)
    flags = []
    if re.search(r"(cargo test|cargo run)[^\n]*--release[^\n]*seed_demo|seed_demo[^\n]*--release", open(os.path.join(seed, "demo.rs")).read()[:2500]):
        flags.append("--release")
    m = re.search(r"--features[= ]+(\w+)", txt)
    if m:
        flags += ["--features", m.group(1)]
    return flags


def confirm(seed):
    tag = os.path.basename(seed.rstrip("/"))
    res = {"seed": seed}
    flags = demo_flags(seed)
    res["demo_flags"] = flags
    d = copy_repo(tag + "-p", os.path.join(seed, "patch.diff"))
    try:
        rc, out = sh("cargo test --offline --workspace --no-fail-fast 2>&1 | grep -E 'test result|FAILED|error' | head -20", d, target=TARGET + "-p")
        res["suite_with_patch"] = out.strip().split("\n")
        ok = bool(re.search(r"test result: ok\. 131 passed", out)) and "FAILED" not in out and "error" not in out
        res["suite_ok"] = ok
        shutil.copy(os.path.join(seed, "demo.rs"), os.path.join(d, "tests", "seed_demo.rs"))
        rc, out = sh(["cargo", "test", "--offline", "--test", "seed_demo"] + flags, d, target=TARGET + "-p")
        res["demo_with_patch_rc"] = rc
        res["demo_with_patch_tail"] = "\n".join(l for l in out.split("\n") if re.search(r"test result|panicked|FAILED|signal|error", l))[-600:]
    finally:
        shutil.rmtree(d, ignore_errors=True)
    d = copy_repo(tag + "-o")
    try:
        shutil.copy(os.path.join(seed, "demo.rs"), os.path.join(d, "tests", "seed_demo.rs"))
        rc, out = sh(["cargo", "test", "--offline", "--test", "seed_demo"] + flags, d, target=TARGET + "-o")
        res["demo_without_patch_rc"] = rc
    finally:
        shutil.rmtree(d, ignore_errors=True)
    res["confirmed"] = bool(res.get("suite_ok") and res["demo_with_patch_rc"] != 0 and res["demo_without_patch_rc"] == 0)
    return res


def run_checks(seed, tier="quick", props=None, extra=()):
    tag = os.path.basename(seed.rstrip("/"))
    meta = json.load(open(os.path.join(seed, "meta.json")))
    props = props or [meta["property"]]
    d = copy_repo(tag + "-c", os.path.join(seed, "patch.diff"))
    out = {}
    try:
        for p in props:
            t0 = time.time()
            env = dict(os.environ, VERIF_REPO=d, VERIF_EVIDENCE_DIR="/tmp/seed-evidence")
            r = subprocess.run([os.path.join(VERIF, "check"), p, "--tier", tier] + list(extra), cwd=VERIF, env=env,
                               stdout=subprocess.PIPE, stderr=subprocess.STDOUT, text=True)
            lines = [l for l in r.stdout.split("\n") if re.match(r"VIOLATION|UNDECIDED|BROKEN|KNOWN|property=", l)]
            out[p] = {"rc": r.returncode, "wall": round(time.time() - t0), "lines": [l[:400] for l in lines][:8]}
    finally:
        shutil.rmtree(d, ignore_errors=True)
    return out


if __name__ == "__main__":
    mode = sys.argv[1]
    args = sys.argv[2:]
    tier = "quick"
    props = None
    extra = []
    seeds = []
    i = 0
    while i < len(args):
        if args[i] == "--tier":
            tier = args[i + 1]; i += 2
        elif args[i] == "--props":
            props = args[i + 1].split(","); i += 2
        elif args[i] == "--only":
            extra += [args[i], args[i + 1]]; i += 2
        elif args[i].startswith("--"):
            extra.append(args[i]); i += 1
        else:
            seeds.append(args[i]); i += 1
    for s in seeds:
        if mode == "confirm":
            r = confirm(s)
            json.dump(r, open(os.path.join(s, "confirm.json"), "w"), indent=1)
            print(os.path.basename(s), "CONFIRMED" if r["confirmed"] else "NOT-CONFIRMED", r.get("suite_ok"), r["demo_with_patch_rc"], r["demo_without_patch_rc"], r["demo_flags"], flush=True)
        else:
            r = run_checks(s, tier, props, extra)
            json.dump(r, open(os.path.join(s, "check-%s.json" % tier), "w"), indent=1)
            for p, v in r.items():
                print(os.path.basename(s), p, "rc=%d" % v["rc"], "%ds" % v["wall"], flush=True)
                for l in v["lines"][:3]:
                    print("    ", l[:260], flush=True)
