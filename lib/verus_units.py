"""Verus units (filled in below)."""


def run_for(prop, tier, only=None):
    return {"obligations": 0, "discharged": 0, "functions": [], "violations": [], "undecided": [],
            "samples": [], "assumptions": [], "smt_s": 0.0, "cmd": ""}
