"""Verus units: functions extracted verbatim from /repo/src, contracts injected from
/verif/verus/specs.toml, verified for all N and all K, V.

What the extraction changes (everything else is byte-identical and checked):
  * only the listed functions and the two struct definitions are taken; doc comments
    and attributes in front of an item are not copied;
  * `pub(super)` -> `pub(crate)` (single-file crate);
  * `-> T` becomes `-> (r: T)` so that `ensures` can name the result; for
    `IntoIter::next` the associated type `Self::Item` is spelled out as `(K, V)`
    (checked against `type Item = (K, V);` in the impl);
  * trait impl headers (`Drop for Map`, `Iterator for IntoIter`, `ExactSizeIterator
    for IntoIter`) become inherent impl headers;
  * requires/ensures are inserted between signature and body, loop invariants before
    the body of the n-th loop; a closure listed under `closures` gets its
    `-> (r: T) requires .. ensures ..` clause inserted after its parameter list (and, when
    its body is a bare expression, a pair of braces around that expression - Rust's
    grammar requires a block after a closure return type); trusted functions get
    #[verifier::external_body];
  * struct fields are declared `pub` (open specification functions may then mention
    them); the file is laid out as root (type definitions) + `mod spec` (prelude) +
    `mod code` (the extracted functions), so that the module-level `broadcast use` of the
    proved plumbing lemmas is not cyclic.
"""
import json
import os
import re
import shutil
import tempfile
import time
import tomllib

import vf

SEMANTIC = re.compile(
    r"postcondition not satisfied|precondition not satisfied|invariant not satisfied|"
    r"assertion failed|possible arithmetic (underflow|overflow)|possible division by zero|"
    r"loop invariant not|recommendation not met|assertion not satisfied|"
    r"index out of bounds|possible .*overflow|failed precondition|cannot show|"
    r"unable to prove post-condition of closure|unable to prove pre-condition")
PROOF_STRUCTURE = re.compile(r"decreases not satisfied|termination")


def load_specs():
    with open(os.path.join(vf.VERIF, "verus", "specs.toml"), "rb") as f:
        return tomllib.load(f)


def enclosing_impl(sc, pos):
    """innermost `impl ... {` block containing pos -> (header_text, open_idx, close_idx)"""
    best = None
    for m in re.finditer(r"\bimpl\b", sc.code):
        bo = sc.code.find("{", m.end())
        if bo < 0:
            continue
        try:
            bc = sc.match_brace(bo)
        except vf.Undecided:
            continue
        if bo < pos < bc:
            if best is None or bo > best[1]:
                best = (sc.t[m.start():bo].strip(), bo, bc)
    return best


def inherent_header(h):
    h2 = re.sub(r"\b(Drop|Iterator|ExactSizeIterator)\s+for\s+", "", h)
    h2 = re.sub(r"<'\w+(,\s*)?", "<", h2) if False else h2
    return re.sub(r"\s+", " ", h2)


def find_loops(sc, lo, hi):
    """positions of loop body braces, in source order, inside [lo,hi)"""
    out = []
    for m in re.finditer(r"\b(for|while|loop)\b", sc.code[lo:hi]):
        s = lo + m.start()
        # `for` in `impl X for Y` / HRTB cannot occur inside a fn body of these functions
        bo = sc.code.find("{", lo + m.end())
        out.append((s, bo))
    return out


def find_closures(sc, lo, hi):
    """closures inside [lo,hi) in source order -> list of (params_end, body_start, body_end, braced)
    params_end: index just after the closing `|`; body_[start,end): the body expression."""
    out = []
    code = sc.code
    i = lo
    while i < hi:
        if code[i] == "|":
            j = i - 1
            while j >= lo and code[j].isspace():
                j -= 1
            prev = code[j] if j >= lo else ""
            word = re.search(r"(\w+)\s*$", code[lo:i])
            is_start = prev in "(,=" or (word is not None and word.group(1) in ("move", "return"))
            if not is_start:
                i += 1
                continue
            if code[i + 1] == "|":
                pe = i + 2
            else:
                k = i + 1
                depth = 0
                while k < hi:
                    c = code[k]
                    if c in "([<":
                        depth += 1
                    elif c in ")]>" and code[k - 1] != "-":
                        depth -= 1
                    elif c == "|" and depth <= 0:
                        break
                    k += 1
                pe = k + 1
            b = pe
            while b < hi and code[b].isspace():
                b += 1
            if code[b] == "{":
                be = sc.match_brace(b) + 1
                out.append((pe, b, be, True))
                i = b + 1  # closures nested in the body are found too
                continue
            # bare expression: ends at the first `,` or closing bracket at depth 0
            depth, k = 0, b
            while k < hi:
                c = code[k]
                if c in "([{":
                    depth += 1
                elif c in ")]}":
                    if depth == 0:
                        break
                    depth -= 1
                elif c == "," and depth == 0:
                    break
                k += 1
            e = k
            while e > b and code[e - 1].isspace():
                e -= 1
            out.append((pe, b, e, False))
            i = pe
            continue
        i += 1
    return out


def extract_fn(repo, spec):
    path = os.path.join(repo, spec["file"])
    if not os.path.exists(path):
        raise vf.Undecided("file %s is gone" % spec["file"])
    text = open(path).read()
    sc = vf.RustScanner(text)
    lo, hi = 0, sc.n
    if "within" in spec:
        hs = [m.start() for m in re.finditer(re.escape(spec["within"]), sc.code)]
        if len(hs) != 1:
            raise vf.Undecided("impl block %r matched %d times" % (spec["within"], len(hs)))
        bo = sc.code.find("{", hs[0])
        lo, hi = bo, sc.match_brace(bo)
    start, bo, bc = sc.find_fn(spec["anchor"], lo, hi)
    sig = text[start:bo].rstrip()
    body = text[bo:bc + 1]
    imp = enclosing_impl(sc, start)
    if imp is None:
        raise vf.Undecided("no enclosing impl for %s" % spec["name"])
    header = imp[0]
    # ---- signature: name the result
    sig2 = sig.replace("pub(super)", "pub(crate)")
    # the return arrow is the one after the parameter list (not one inside a generic bound)
    depth, ang, pend = 0, 0, None
    mfn = re.search(r"\bfn\s+\w+", sig2)
    i = mfn.end()
    while i < len(sig2):
        c = sig2[i]
        if c == "<" and depth == 0:
            ang += 1
        elif c == ">" and depth == 0 and sig2[i - 1] != "-":
            ang -= 1
        elif c == "(":
            depth += 1
        elif c == ")":
            depth -= 1
            if depth == 0 and ang == 0:
                pend = i
                break
        i += 1
    if pend is None:
        raise vf.Undecided("cannot parse signature of %s" % spec["name"])
    tail = sig2[pend + 1:]
    m = re.match(r"\s*->\s*(.+?)\s*(where\b.*)?$", tail, re.S)
    if m and spec.get("keep_sig"):
        pass
    elif m:
        rt = m.group(1).strip()
        if spec.get("ret_type"):
            # the impl's associated type spelled out (checked against the impl block)
            blk = text[imp[1]:imp[2]]
            inner = re.match(r"Option<(.*)>$", spec["ret_type"])
            want = re.sub(r"\s+", "", "type Item = %s;" % (inner.group(1) if inner else spec["ret_type"]))
            if rt != "Option<Self::Item>" or want not in re.sub(r"\s+", "", blk):
                raise vf.Undecided("%s: the impl's Item type is no longer %s" % (spec["name"], spec["ret_type"]))
            rt = spec["ret_type"]
        elif rt == "Option<Self::Item>":
            blk = text[imp[1]:imp[2]]
            if not re.search(r"type\s+Item\s*=\s*\(K,\s*V\);", blk):
                raise vf.Undecided("Self::Item is no longer (K, V) in %s" % spec["name"])
            rt = "Option<(K, V)>"
        sig2 = sig2[:pend + 1] + " -> (r: %s)" % rt + (" " + m.group(2) if m.group(2) else "")
    # ---- loops and closures: annotations are *inserted*; nothing is removed
    loops = find_loops(sc, bo, bc)
    ann = spec.get("loops", [])
    if len(ann) != len(loops):
        raise vf.Undecided("%s: %d loops in the source, %d loop specifications" % (spec["name"], len(loops), len(ann)))
    inserts = []  # (position in text, inserted string)
    replaces = []  # (start, end, new text): closure parameter patterns only
    for (s_, lbo), a in zip(loops, ann):
        inserts.append((lbo, "\n" + a.rstrip("\n").lstrip("\n") + "\n            "))
    cann = spec.get("closures")
    nclos = 0
    if cann is not None:
        clos = find_closures(sc, bo, bc)
        nclos = len(clos)
        if len(cann) != len(clos):
            raise vf.Undecided("%s: %d closures in the source, %d closure specifications" % (spec["name"], len(clos), len(cann)))
        for (pe, cb, ce, braced), a in zip(clos, cann):
            bind = None
            if isinstance(a, dict):
                bind, a = a.get("bind"), a.get("spec", "")
            a = " ".join(a.split())
            if not a and not bind:
                continue
            if "$p" in a:
                # `$p` stands for the closure's own (single identifier) parameter, so that renaming it is harmless
                ps0 = sc.code.rfind("|", bo, pe - 1)
                pm = re.match(r"^\s*(?:mut\s+)?(\w+)\s*(?::.*)?$", text[ps0 + 1:pe - 1], re.S)
                if not pm:
                    raise vf.Undecided("%s: closure parameter is not a single identifier" % spec["name"])
                a = a.replace("$p", pm.group(1))
            let = ""
            if bind:
                # closure parameter *pattern* -> variable + `let PATTERN = variable;` as the first
                # statement of the body (Rust's own definition of a pattern parameter; this Verus
                # accepts only variables as closure parameters)
                ps = sc.code.rfind("|", bo, pe - 1)
                pat = text[ps + 1:pe - 1]
                if "|" in pat or not pat.strip():
                    raise vf.Undecided("%s: cannot isolate the parameter pattern of a closure" % spec["name"])
                replaces.append((ps + 1, pe - 1, bind))
                mref = re.match(r"^&\s*(\w+)$", pat.strip())
                if mref:
                    # `|&x| ..` binds x to a copy of what the argument points to: `let x = *p0;` (this Verus has no ref patterns)
                    let = "let %s = *%s; " % (mref.group(1), bind)
                else:
                    let = "let %s = %s; " % (pat.strip(), bind)
            if braced:
                inserts.append((pe, " " + a + " "))
                if let:
                    inserts.append((cb + 1, " " + let))
            else:
                inserts.append((cb, a + " { " + let))
                inserts.append((ce, " }"))
    hints = spec.get("hints", [])
    for h in hints:
        # ghost hint: `after` is a regex on the masked source of this function, the proof text goes right after the match
        hm = [m for m in re.finditer(h["after"], sc.code[bo:bc])]
        if len(hm) != 1:
            raise vf.Undecided("%s: hint anchor %r matched %d times" % (spec["name"], h["after"], len(hm)))
        inserts.append((bo + hm[0].end(), "\n" + h["text"].strip("\n") + "\n"))
    # edits: ("ins", pos, text) / ("rep", start, end, text); built left to right, then undone again as a check
    edits = [("ins", pos, pos, ins) for pos, ins in inserts] + [("rep", a_, b_, t_) for a_, b_, t_ in replaces]
    edits.sort(key=lambda e: (e[1], 0 if e[0] == "rep" else 1))
    pieces, cur, marks = [], bo, []
    outlen = 0
    for kind, a_, b_, t_ in edits:
        seg = text[cur:a_]
        pieces.append(seg)
        outlen += len(seg)
        marks.append((outlen, len(t_), text[a_:b_]))
        pieces.append(t_)
        outlen += len(t_)
        cur = b_
    pieces.append(text[cur:bc + 1])
    body2 = "".join(pieces)
    # check: undoing exactly these edits gives back the original body, byte for byte
    back, cur = [], 0
    for at, ln, orig in marks:
        back.append(body2[cur:at])
        back.append(orig)
        cur = at + ln
    back.append(body2[cur:])
    if "".join(back) != body:
        raise vf.Undecided("%s: body identity check failed" % spec["name"])
    line_in_repo = text.count("\n", 0, start) + 1
    mfn2 = re.search(r"\bfn\s+(\w+)", sig2)
    hdr = re.sub(r"\s+", " ", header) if spec.get("keep_trait") else inherent_header(header)
    if spec.get("header"):
        # stated rewrite of a trait impl header whose generics cannot stay on an inherent impl
        hdr = spec["header"]
    for a_, b_ in spec.get("sig_replace", []):
        if sig2.count(a_) != 1:
            raise vf.Undecided("%s: signature rewrite anchor %r not found once" % (spec["name"], a_))
        sig2 = sig2.replace(a_, b_)
    mfn3 = re.search(r"\bfn\s+(\w+)", sig2)
    emit_name = spec["name"].split("::")[0].split("(")[0] + "::" + (mfn3.group(1) if mfn3 else "?")
    return {"name": spec["name"], "emit_name": emit_name, "header": hdr, "impl_items": spec.get("impl_items", ""), "orig_header": re.sub(r"\s+", " ", header),
            "sig": sig2, "spec": spec.get("spec", ""), "body": body2, "orig_body": body,
            "trusted": spec.get("trusted", False), "keep_trait": spec.get("keep_trait", False), "omit_body": spec.get("omit_body", False), "props": spec.get("props", []),
            "file": spec["file"], "line": line_in_repo, "sha": vf.sha(body), "loops": len(loops), "closures": nclos,
            "hints": len(hints)}


def extract_struct(repo, spec):
    path = os.path.join(repo, spec["file"])
    text = open(path).read()
    sc = vf.RustScanner(text)
    hits = [m for m in re.finditer(spec["anchor"], sc.code)]
    if len(hits) != 1:
        raise vf.Undecided("struct anchor %r matched %d times" % (spec["anchor"], len(hits)))
    s = hits[0].start()
    bo = sc.code.find("{", s)
    bc = sc.match_brace(bo)
    t = text[s:bc + 1]
    t = "\n".join(l for l in t.split("\n") if not l.strip().startswith("///"))
    if re.match(r"pub struct", t):
        # fields are declared pub (nothing else changes): open spec fns may then mention them
        head, rest = t.split("{", 1)
        rest = re.sub(r"(?m)^(\s*)(?:pub(?:\([a-z]+\))?\s+)?(\w+\s*:)", r"\1pub \2", rest)
        t = head + "{" + rest
    return t


def assemble(repo, demote=()):
    specs = load_specs()
    imports = ["use vstd::prelude::*;", "use vstd::std_specs::cmp::PartialEqSpec;",
               "use vstd::std_specs::maybe_uninit::*;", "use vstd::std_specs::iter::IteratorSpec;",
               "use vstd::raw_ptr::MemContents;", "use vstd::slice::SliceIndexSpec;", "use core::slice::SliceIndex;",
               "use core::mem::MaybeUninit;", "use core::borrow::Borrow;",
               "use core::mem;  // src/entry.rs: `use core::mem;`"]
    structs = [extract_struct(repo, s) for s in specs.get("struct", [])]
    names = [re.search(r"pub (?:struct|enum) (\w+)", t).group(1) for t in structs]
    out = ["// generated by /verif/lib/verus_units.py from %s - do not edit" % repo]
    out += imports
    out += ["verus! {", ""]
    for t in structs:
        out.append(t)
        out.append("")
    local = "use super::{%s};" % ", ".join(names)
    out.append("pub mod spec {")
    out += imports + [local]
    out.append(open(os.path.join(vf.VERIF, "verus", "prelude.rs")).read())
    out.append("} // mod spec")
    out.append("")
    out.append("@@TRAITS@@")
    out.append("pub mod code {")
    out += imports + [local, "use super::spec::*;"]
    lemmas = re.findall(r"pub broadcast (?:proof|axiom) fn (\w+)", open(os.path.join(vf.VERIF, "verus", "prelude.rs")).read())
    out.append("broadcast use {%s};" % ", ".join("super::spec::" + l for l in lemmas))
    out.append("")
    fns, lost = [], []
    linemap = []  # (first_line, last_line, fn)
    for s in specs.get("fn", []):
        try:
            f = extract_fn(repo, s)
        except vf.Undecided as e:
            lost.append({"function": s["name"], "why": str(e), "props": s.get("props", []), "trusted": s.get("trusted", False)})
            continue
        fns.append(f)
    # trait impls that are kept as trait impls live in their own module (no `broadcast use` there: the proved
    # lemmas may depend on these impls)
    kept = [f for f in fns if f.get("keep_trait")]
    ti = out.index("@@TRAITS@@")
    tblk = ["pub mod traits {"] + imports + [local, "use super::spec::*;", ""] if kept else []
    out[ti:ti + 1] = ["\n".join(tblk)] if kept else [""]
    def emit(f, sink_first):
        blk = [f["header"] + " {"]
        if f.get("impl_items"):
            blk.append("    " + f["impl_items"])
        if f["name"] in demote:
            # this function's body did not get through the Verus front end on this run: keep its
            # contract (assumed) so that its callers are still checked, and report it as undecided
            f["trusted"], f["omit_body"], f["demoted"] = True, True, True
        if f["trusted"]:
            blk.append("    #[verifier::external_body]")
        blk.append("    " + f["sig"])
        blk.append(f["spec"].strip("\n"))
        f["body_line"] = sink_first + sum(x.count("\n") + 1 for x in blk)
        if f["trusted"] and f.get("omit_body"):
            # assumed contract only: the body (not verified anyway) refers to items that are not extracted
            blk.append("    { unimplemented!() }")
        else:
            blk.append("    " + f["body"])
        blk.append("}")
        blk.append("")
        return "\n".join(blk)
    if kept:
        parts = [out[ti]]
        for f in kept:
            first = sum(x.count("\n") + 1 for x in out[:ti]) + sum(x.count("\n") + 1 for x in parts) + 1
            txt = emit(f, first)
            parts.append(txt)
            linemap.append((first, first + txt.count("\n"), f))
        parts.append("} // mod traits\n")
        out[ti] = "\n".join(parts)
    for f in fns:
        if f.get("keep_trait"):
            continue
        first = sum(x.count("\n") + 1 for x in out) + 1
        txt = emit(f, first)
        out.append(txt)
        last = first + txt.count("\n")
        linemap.append((first, last, f))
    out.append("} // mod code")
    out.append("} // verus!")
    out.append("fn main() {}")
    return "\n".join(out), fns, lost, linemap


def parse_errors(stderr, linemap, path):
    errs = []
    cur = None
    base = os.path.basename(path)
    for line in stderr.split("\n"):
        m = re.match(r"^(error|warning|note)(\[\w+\])?: (.*)$", line)
        if m:
            cur = {"level": m.group(1), "msg": m.group(3), "lines": [], "text": [line]}
            errs.append(cur)
            continue
        if cur is not None:
            cur["text"].append(line)
            m = re.match(r"^\s*-->\s*(\S+):(\d+):(\d+)", line)
            if m and os.path.basename(m.group(1)) == base:
                cur["lines"].append(int(m.group(2)))
            m = re.match(r"^\s*(\d+)\s*\|", line)
            if m:
                cur.setdefault("ctx_lines", []).append(int(m.group(1)))
    out = []
    for e in errs:
        if e["level"] != "error":
            continue
        if e["msg"].startswith("aborting due to"):
            continue
        fn = None
        for ln in e["lines"] + e.get("ctx_lines", []):
            for a, b, f in linemap:
                if a <= ln <= b:
                    fn = f
                    break
            if fn:
                break
        e["fn"] = fn
        e["text"] = "\n".join(e["text"])[:1500]
        out.append(e)
    return out


def run_for(prop, tier, only=None):
    t0 = time.time()
    res = {"obligations": 0, "discharged": 0, "functions": [], "violations": [], "undecided": [],
           "samples": [], "assumptions": [], "smt_s": 0.0, "cmd": "", "backend": "verus"}
    specs = load_specs()
    relevant = [s for s in specs.get("fn", []) if prop in s.get("props", []) and not s.get("trusted")]
    if only:
        relevant = [s for s in relevant if only in s["name"]] or relevant
    if not relevant:
        return res
    demoted = {}
    for attempt in range(4):
        try:
            text, fns, lost, linemap = assemble(vf.REPO, demote=set(demoted))
        except vf.Undecided as e:
            res["undecided"].append({"function": "(extraction)", "why": str(e)})
            return res
        except Exception as e:  # noqa
            res["undecided"].append({"function": "(extraction)", "why": repr(e)})
            return res
        work = tempfile.mkdtemp(prefix="micromap-verus-", dir=os.environ.get("VERIF_TMP", "/tmp"))
        try:
            path = os.path.join(work, "micromap_core.rs")
            open(path, "w").write(text)
            r = vf.run_verus(path)
            if os.environ.get("VERIF_KEEP_VERUS"):
                shutil.copy(path, os.environ["VERIF_KEEP_VERUS"])
        finally:
            shutil.rmtree(work, ignore_errors=True)
        # a body that the front end rejects (calls a new helper, uses an unsupported construct) takes the
        # whole file down: demote exactly those functions to their contracts and try again
        if r["status"] != "ran" or r.get("json") is None:
            break
        errs0 = parse_errors(r["stderr"], linemap, "micromap_core.rs")
        hard0 = [e for e in errs0 if not SEMANTIC.search(e["msg"]) and not PROOF_STRUCTURE.search(e["msg"])]
        ran_smt = bool(r["json"].get("times-ms", {}).get("smt", {}).get("smt-run-module-times"))
        blame = {e["fn"]["name"]: e["msg"] for e in hard0 if e["fn"] is not None and not e["fn"]["trusted"]}
        if (r["json"].get("verification-results", {}).get("encountered-vir-error") or (hard0 and not ran_smt)) and blame:
            demoted.update(blame)
            continue
        break
    for nm, why in demoted.items():
        res["undecided"].append({"function": nm, "why": "verus front end rejected this function's extracted text (its contract is kept as an assumption for its callers): " + why[:300]})
    res["cmd"] = "verus micromap_core.rs --output-json --time --multiple-errors 30 (file regenerated from /repo/src on this run)"
    rel_names = {s["name"] for s in relevant}
    lost_rel = [l for l in lost if l["function"] in rel_names or l["trusted"]]
    for l in lost_rel:
        res["undecided"].append({"function": l["function"], "why": "anchor lost: " + l["why"]})
    if r["status"] != "ran" or r.get("json") is None:
        res["undecided"].append({"function": "(verus)", "why": "verus did not produce a result: %s %s" % (r["status"], (r.get("stderr") or "")[-400:])})
        return res
    js = r["json"]
    vr = js.get("verification-results", {})
    per_fn = {}
    for m in js.get("times-ms", {}).get("smt", {}).get("smt-run-module-times", []):
        for fb in m.get("function-breakdown", []):
            nm = fb["function"].split("::", 1)[1]
            per_fn[nm] = fb
            res["smt_s"] += fb.get("time-micros", 0) / 1e6
    errors = parse_errors(r["stderr"], linemap, "micromap_core.rs")
    hard = [e for e in errors if not SEMANTIC.search(e["msg"]) and not PROOF_STRUCTURE.search(e["msg"])]
    if vr.get("encountered-vir-error") or (hard and not per_fn):
        # the file did not get through the front end: nothing is decided
        why = "; ".join(e["msg"] for e in hard[:3]) or "front-end error"
        for s in relevant:
            res["undecided"].append({"function": s["name"], "why": "verus front end rejected the extracted text: " + why[:400]})
        return res
    extracted = {f["name"]: f for f in fns}
    for s in relevant:
        f = extracted.get(s["name"])
        if f is None or f.get("demoted"):
            continue
        fb = per_fn.get(f.get("emit_name") or s["name"]) or per_fn.get(s["name"])
        row = {"function": s["name"], "repo_location": "%s:%d" % (f["file"], f["line"]), "body_sha256_16": f["sha"],
               "loops_annotated": f["loops"], "closures_annotated": f.get("closures", 0), "impl_header": f["orig_header"],
               "emitted_as": f.get("emit_name")}
        ferrs = [e for e in errors if e["fn"] is f]
        sem = [e for e in ferrs if SEMANTIC.search(e["msg"])]
        other = [e for e in ferrs if e not in sem]
        res["obligations"] += 1
        if fb and fb.get("success") and not ferrs:
            res["discharged"] += 1
            row["status"] = "verified"
            row["smt_ms"] = fb.get("time")
            row["rlimit"] = fb.get("rlimit")
            if len(res["samples"]) < 3:
                res["samples"].append({"unit": "verus:" + s["name"], "obligation": "body satisfies: " + " ".join(s["spec"].split())[:300], "status": "verified for all N, K, V"})
        elif sem:
            row["status"] = "failed"
            seen = set()
            for e in sem:
                m = re.search(r"^\s*\d+\s*\|\s*(.*?)\s*$", e["text"], re.M)
                clause = (m.group(1) if m else "").strip()[:160]
                ob = "%s: %s [%s]" % (s["name"], e["msg"], clause)
                if ob in seen or len(seen) >= 3:
                    continue
                seen.add(ob)
                res["violations"].append({"function": s["name"], "obligation": ob,
                                          "repo_location": row["repo_location"], "message": e["text"]})
        else:
            row["status"] = "undecided"
            why = "; ".join(e["msg"] for e in other[:3]) or ("rlimit/timeout" if fb and not fb.get("success") else "no result for this function")
            res["undecided"].append({"function": s["name"], "why": why})
        res["functions"].append(row)
    # ---- canary: the pipeline must be able to report a failure
    if not res["violations"] and not res["undecided"]:
        marker = "Some(r) == old(self).slot(i as int),"
        if marker in text:
            ctext = text.replace(marker, marker + "\n            final(self).slen() == old(self).slen(), // canary: false on purpose", 1)
            work = tempfile.mkdtemp(prefix="micromap-verus-canary-", dir=os.environ.get("VERIF_TMP", "/tmp"))
            try:
                cpath = os.path.join(work, "micromap_core.rs")
                open(cpath, "w").write(ctext)
                cr = vf.run_verus(cpath)
            finally:
                shutil.rmtree(work, ignore_errors=True)
            cj = (cr.get("json") or {}).get("verification-results", {})
            res["canary"] = {"what": "false postcondition on remove_index_read must be rejected", "errors": cj.get("errors")}
            if not cj.get("errors"):
                res["undecided"].append({"function": "(canary)", "why": "BROKEN: Verus accepted a deliberately false postcondition"})
        else:
            res["canary"] = {"what": "skipped: remove_index_read contract marker not present"}
    # ---- mechanical scan of the generated text for anything that is assumed rather than proved
    scan = {"assume(": len(re.findall(r"\bassume\s*\(", text)), "admit(": len(re.findall(r"\badmit\s*\(", text)),
            "external_body": re.findall(r"#\[verifier::external_body\]\s*\n\s*(?:pub(?:\(crate\))? )?(?:unsafe )?fn (\w+)", text),
            "axioms": re.findall(r"broadcast axiom fn (\w+)", text),
            "assume_specification": [" ".join(x.split()) for x in re.findall(r"assume_specification\b.*?>\[\s*(.+?)\s*\]\s*\(", text)]}
    res["assumption_scan"] = scan
    trusted = [f["name"] for f in fns if f["trusted"]]
    res["trusted_functions"] = trusted
    res["assumptions"] = [
        "Verus: assumed contracts (external_body; bodies not verified by Verus): " + ", ".join(trusted)
        + " - item_read: the move out of a MaybeUninit cell (cell treated as vacated afterwards) is an ownership discipline, not a fact about bytes; "
          "insert_ii / insert_ii_for_full: chains over iter_mut() whose skipped items have unresolved prophecies (their contract insert_post is discharged on the real bodies by the Kani units kh_insert_ii*_post_* at N in {1,2,3,9}); "
          "Map::new: array-fill with a non-Copy element is outside this Verus; Iter::next(trait): the kept `impl Iterator for Iter` is assumed to obey vstd's iterator laws (its inherent copy is verified one step at a time); "
          "Iter::size_hint / IterMut::size_hint: delegations to core's slice::Iter(Mut)::size_hint, which vstd leaves unspecified and for which a second specification is rejected as a duplicate "
          "(assumed: exact remaining length; discharged by the Kani units c09_iter_* / c09_iter_mut_* 'len/size_hint are exact before every step')",
        "Verus: assumed axioms / clauses of the second external specification of Iterator: " + ", ".join(scan["axioms"]) + "; enumerate (same items, each paired with its position), by_ref (identity)",
        "Verus: assumed specifications of core functions vstd does not cover: " + ", ".join(scan["assume_specification"])
        + "; Borrow::borrow is specified only under the hypothesis obeys_borrow (deterministic borrow_spec)",
        "Verus: vstd's own specifications of MaybeUninit::{assume_init_ref,assume_init_mut}, slice indexing/iter/iter_mut, Iterator::{find,next,...}, Option::{map,is_some,is_none}, `?` are trusted as part of vstd",
        "Verus: what the extraction changes is listed in lib/verus_units.py (result naming, pub fields, trait impl headers -> inherent, closure clauses, closure pattern parameters bound by let, module layout); bodies are otherwise byte-identical and the identity is checked on every run",
        "Verus: machine integers are bounded mathematical integers with overflow as an obligation; slot state slot_of(pairs,i) is vstd's MaybeUninit mem_contents of pairs@[i]",
    ]
    res["wall_s"] = round(time.time() - t0, 2)
    res["verus_total_verified"] = vr.get("verified")
    res["verus_total_errors"] = vr.get("errors")
    return res
