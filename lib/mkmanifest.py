#!/usr/bin/env python3
"""Writes /verif/MANIFEST.json from the property table below and the unit registry."""
import json
import os
import sys

sys.path.insert(0, os.path.dirname(os.path.abspath(__file__)))
import units as U  # noqa: E402

VERIF = os.path.dirname(os.path.dirname(os.path.abspath(__file__)))

# property -> (level text, level note, technique, design section)
CLAIMS = {}
NOT_YET = {}


def claim(pid, text, note, technique, ref):
    CLAIMS[pid] = (text, note, technique, ref)


BOUND = ("Kani obligations are complete for every state and input at the instantiated capacities "
         "(quick N<=2, thorough N<=3/4) and element shapes, not for larger N; ")
TB = ("Trusted: Kani/CBMC/CaDiCaL, Verus/Z3, rustc, the mechanical injection of the harness module "
      "(cfg(kani)) into a scratch copy of /repo; kani::assume only in state generators and stated preconditions.")

claim("C01",
      "Contract of every public Map operation (result = ideal-dictionary result; view afterwards = model transition for a symbolic probe key; len; key uniqueness) "
      "proved by Kani on the real compiled crate from an arbitrary well-formed pre-state (any len, any slot order, arbitrary bytes in dead slots), hence for every history by induction; "
      "swap-remove/insert/clear/retain cores additionally proved by Verus for all N and all K,V on the verbatim function bodies.",
      BOUND + TB, "function contracts discharged by Kani (CBMC) on the real crate + Verus on extracted bodies", "DESIGN 6/C01")
claim("C02",
      "Ownership ledger contracts: every key/value is a token whose Drop/Eq/Clone assert the ledger discipline; for every operation, consuming iterator and drain "
      "(dropped or forgotten after a symbolic number of steps) Kani proves no token is destroyed twice, none is used dead/uninitialised, and the final sweep finds every token destroyed exactly once. "
      "Verus proves for all N that every slot accessor call in the accessor-style functions meets its live/empty precondition.",
      BOUND + TB, "ghost ownership ledger as contracts, discharged by Kani; linear slot-state contracts discharged by Verus", "DESIGN 6/C02")
claim("C04",
      "Unwind-safety obligations at every user callback (Tok::eq/clone/drop, predicates, closures, source iterators) of every operation from every state: "
      "each watched container must be droppable at that very point (len<=N, live prefix holds live pairwise-different tokens, the token being destroyed is no longer counted). "
      "Kani explores all callback positions at once. Found three genuine defects (clear, retain, clone) - fixed in /repo, see known_findings.json.",
      BOUND + "Kani has no unwinding: the state after a panic is inferred from the obligation at the panic point; locals held by the operation at a callback are not modelled. " + TB,
      "panic points as proof obligations (monitor contract at each callback), discharged by Kani", "DESIGN 4.4, 6/C04, 7")


def main():
    checks = []
    for pid in sorted(CLAIMS):
        text, note, tech, ref = CLAIMS[pid]
        checks.append({
            "property_id": pid,
            "quick_cmd": "./check %s --tier quick" % pid,
            "thorough_cmd": "./check %s --tier thorough" % pid,
            "evidence_file": "/verif/evidence/%s.json" % pid,
            "replay_cmd_template": "./check %s --replay {path}" % pid,
            "engine": "contracts",
            "level_claimed": {"category": "proof", "text": text, "design_ref": ref},
            "level_note": note,
            "technique": tech,
        })
    props = [json.loads(l)["id"] for l in open(os.path.join(VERIF, "properties.jsonl"))]
    na = []
    for pid in props:
        if pid not in CLAIMS:
            na.append({"property_id": pid, "reason": NOT_YET.get(pid, "check not built yet (work in progress; see DESIGN.md section 6 for the planned contracts)")})
    man = {
        "version": 1,
        "setup_cmd": "./setup.sh",
        "hooks": {
            "guard": "cfg(kani)",
            "enable": "no hook lives in /repo: the harness module, contract attributes and one cfg(kani) statement are injected into a scratch copy at check time (lib/vf.py: inject_kani)",
            "baseline_off_cmd": "cd /repo && cargo test --workspace --no-fail-fast --offline",
            "source_commits": [],
            "add_only": True,
        },
        "engines": [{
            "name": "contracts", "path": "/verif/check",
            "serves_properties": sorted(CLAIMS),
            "kind_free_text": "contract-based deductive verification: Kani function contracts / contract harnesses on the real crate, Verus on verbatim-extracted functions",
        }],
        "checks": checks,
        "not_applicable": na,
        "notes": "Exit 0 held / 1 VIOLATION / 2 undecided (lost anchor, unsupported construct, timeout) - never an alarm. Genuine defects fixed in /repo: see known_findings.json.",
    }
    json.dump(man, open(os.path.join(VERIF, "MANIFEST.json"), "w"), indent=1)
    print("claimed", sorted(CLAIMS), "not_applicable", [x["property_id"] for x in na])


if __name__ == "__main__":
    main()
