#!/usr/bin/env python3
"""Writes /verif/MANIFEST.json from the property table below and the unit registry."""
import json
import os
import sys

sys.path.insert(0, os.path.dirname(os.path.abspath(__file__)))
import units as U  # noqa: E402

VERIF = os.path.dirname(os.path.dirname(os.path.abspath(__file__)))

# property -> (level text, level note, technique, design section)
CLAIMS = {}
NOT_YET = {}


def claim(pid, text, note, technique, ref):
    CLAIMS[pid] = (text, note, technique, ref)


BOUND = ("Kani obligations are complete for every state and input at the instantiated capacities "
         "(quick N<=2, thorough N<=3/4) and element shapes, not for larger N; ")
VASSUME = ("Verus side: bodies extracted verbatim from /repo on every run (closure clauses inserted, closure pattern parameters bound by let, see DESIGN 0.2b); "
           "assumed there: the contracts of item_read, insert_ii, insert_ii_for_full (bodies out of Verus' reach; discharged by Kani at N<=3/4), the axiom for Iterator::enumerate, "
           "lawfulness of the kept `impl Iterator for Iter`, and specifications of get_unchecked(_mut), MaybeUninit::write/assume_init_drop/assume_init_read, mem::drop/replace, AsRef::as_ref; "
           "lookups are stated under the hypothesis of a deterministic Borrow and a specified ==. ")
TB = ("Trusted: Kani/CBMC/CaDiCaL, Verus/Z3, rustc, the mechanical injection of the harness module "
      "(cfg(kani)) into a scratch copy of /repo; kani::assume only in state generators and stated preconditions.")

claim("C01",
      "Contract of every public Map operation (result = ideal-dictionary result; view afterwards = model transition for a symbolic probe key; len; key uniqueness) "
      "proved by Kani on the real compiled crate from an arbitrary well-formed pre-state (any len, any slot order, arbitrary bytes in dead slots), hence for every history by induction; "
      "additionally proved by Verus for ALL N and all K,V on the verbatim function bodies: get, get_key_value, contains_key, remove, remove_entry (first matching slot, swap-remove effect on every slot), "
      "insert/insert_key_value/checked_insert/insert_unchecked (against the insertion-core contract insert_post, which insert_i is proved to satisfy), clear, the swap-remove core, Map::iter.",
      BOUND + VASSUME + TB, "function contracts discharged by Kani (CBMC) on the real crate + Verus on extracted bodies", "DESIGN 6/C01")
claim("C02",
      "Ownership ledger contracts: every key/value is a token whose Drop/Eq/Clone assert the ledger discipline; for every operation, consuming iterator and drain "
      "(dropped or forgotten after a symbolic number of steps) Kani proves no token is destroyed twice, none is used dead/uninitialised, and the final sweep finds every token destroyed exactly once. "
      "Verus proves for all N that every slot access - through the accessors (five of the six are themselves verified against vstd's MaybeUninit model) and the direct assume_init_ref calls inside the lookup closures - meets its live/empty/in-bounds precondition.",
      BOUND + VASSUME + "A bounded native stand-in (native/c04_panic_injection.rs, labelled bounded, not counted as proved) adds the executions the verifiers cannot model. " + TB,
      "ghost ownership ledger as contracts, discharged by Kani; linear slot-state contracts discharged by Verus", "DESIGN 6/C02")
claim("C04",
      "Unwind-safety obligations at every user callback (Tok::eq/clone/drop, predicates, closures, source iterators) of every operation from every state: "
      "each watched container must be droppable at that very point (len<=N, live prefix holds live pairwise-different tokens, the token being destroyed is no longer counted). "
      "Kani explores all callback positions at once. Found three genuine defects (clear, retain, clone) - fixed in /repo, see known_findings.json.",
      BOUND + "Kani has no unwinding: the state after a panic is inferred from the obligation at the panic point; locals held by the operation at a callback are not modelled - "
      "for those a bounded native stand-in (native/c04_panic_injection.rs: one injected panic per run at the k-th callback, k<16, 37 operations, debug+release) is run and reported as bounded, never as proved. " + TB,
      "panic points as proof obligations (monitor contract at each callback), discharged by Kani", "DESIGN 4.4, 6/C04, 7")

KH = "Kani contract harnesses on the real compiled crate (arbitrary well-formed pre-state -> call -> postcondition on the whole view)"
claim("C03",
      "For every safe insertion entry point (insert, insert_key_value, entry().or_insert*/or_default, VacantEntry::insert, collect/extend, Set::insert/replace) from every full state with an absent key, under -C debug-assertions=on AND =off: "
      "the call never returns, the only failing check is the container's own panic site, no memory-safety check fails (no write outside the container), and a frame contract "
      "(kani::modifies() on insert_ii under requires(full && absent)) proves nothing is written before the panic; checked_insert returns None with state unchanged and k,v destroyed once; replacing a present key succeeds; "
      "capacity()==N, len()<=N and the insert_i debug_assert are proved by Verus for all N.",
      BOUND + "the container's contents after unwinding are inferred from 'nothing written before the panic'; that the rejected key and value are destroyed exactly once after unwinding is checked only by the "
      "bounded native stand-in native/c03_full_reject.rs (N<=3, 11 entry points, debug+release), reported as bounded, never as proved. " + TB,
      "expected-panic contract harnesses + frame (modifies) function contract, Kani in both build profiles; Verus for capacity/len/debug_assert", "DESIGN 6/C03")
claim("C05",
      "Well-formedness (len<=N, keys pairwise different) is a postcondition of every mutating contract (C01, C07, C09, C11) from every well-formed pre-state and the observational consequences "
      "(iteration count == len, yielded keys pairwise unequal, every yielded key looks up its value, is_empty/len/capacity) are proved from an arbitrary well-formed state; "
      "Verus proves for all N, K, V: slot-liveness invariant preserved by clear/retain/swap-remove/insert_i/IntoIter::next, key-distinctness preserved by swap-remove (for any relation) and by insert_i, is_empty/len/capacity, and the same for the public wrappers (insert*, remove*, entry API, Set::insert/replace/take/remove).",
      BOUND + VASSUME + TB, KH + "; invariants and lemmas discharged by Verus on the verbatim core", "DESIGN 6/C05")
claim("C07", "Contract of every Set operation (insert, replace, contains, get, remove, take, retain, clear, drain, extend by value and by reference) against the ideal finite set, with a symbolic probe element, borrowed-form lookups and stored-object identity. "
      "Verus proves Set::insert/replace/get/take/remove/contains/clear/len/is_empty/capacity for all N against the Map contracts.",
      BOUND + VASSUME + TB, KH + "; Set projections discharged by Verus against the Map contracts", "DESIGN 6/C07")
claim("C08", "For all pairs of well-formed sets at the instantiated capacity pairs and every fill level: union/intersection/difference/symmetric_difference traversals yield, for a symbolic probe, each element of the mathematical result exactly once and nothing else; "
      "size_hint brackets the remaining count before every step; None stays None; fold equals next; intersection/difference items point into the left operand; predicates equal the mathematical truth value; '-' yields the difference; difference_ref likewise; operands unchanged. Verus proves for all N, M: Difference/DifferenceRef/Intersection::next one step (first element still to come that is not / is in the other operand), their size_hint by exact formula (max(0, rem-|other|), Some(rem)) / (0, Some(min(rem,|other|))), the constructors, is_subset/is_superset/is_disjoint.",
      "Bounded in capacity: quick pairs up to (2,1), thorough up to (3,2)/(2,3); that the size_hint bounds bracket the remaining count is a Kani-only (bounded) obligation; Verus assumes the contracts of Iter::size_hint/IterMut::size_hint and Option::copied; " + TB, KH + " with unrolled traversals; Verus for one-step next/size_hint/predicates", "DESIGN 6/C08")
claim("C09", "iter, iter_mut, keys, values, values_mut, &map/&mut map into_iter, Set::iter: the j-th item is the j-th live slot, len()/size_hint() exact before every step, count() agrees, None after the end, clones continue identically, "
      "a second traversal sees the same order (state unchanged), writes through iter_mut/values_mut are what lookups return. Verus proves for all N: Map::iter hands out exactly the slots below len in order, and one step of Iter::next yields the first of them as (&key, &value) and consumes nothing else; size_hint/len of Keys, Values, ValuesMut, SetIter, IterMut are exact given the (assumed, Kani-discharged) contracts of Iter::size_hint and IterMut::size_hint.", BOUND + VASSUME + TB, KH + "; Verus for Map::iter and Iter::next", "DESIGN 6/C09")
claim("C10", "into_iter/into_keys/into_values/drain and Set equivalents yield exactly the stored entries, each once (matched against unseen slots), with exact len/size_hint before every step and None forever after; "
      "after drain (dropped after any number of steps, or forgotten) the map is empty and reusable; token ledger confirms single destruction; Verus proves IntoIter::next/size_hint/len/count for all N.",
      BOUND + TB, KH + "; Verus for IntoIter", "DESIGN 6/C10")
claim("C11", "entry(k) is Occupied iff present; or_insert/or_insert_with/or_insert_with_key/or_default insert only when vacant, run the closure exactly once and only then, return a reference whose address is the value stored for k; and_modify only when occupied; "
      "Occupied::{key,get,get_mut,insert,into_mut,remove,remove_entry} and Vacant::{key,into_key,insert} have the results and whole-view effects of the direct operations. "
      "Verus proves for all N: entry(k) (Occupied at the first slot whose key equals k, else Vacant carrying k; table untouched), VacantEntry::insert = insert + a reference to the slot used, or_insert/or_insert_with/or_insert_with_key, and the OccupiedEntry/VacantEntry accessors.", BOUND + VASSUME + TB, KH + "; entry API discharged by Verus", "DESIGN 6/C11")
claim("C12", "With keys equal on id but distinguishable by tag (shape S_id): insert, checked_insert (both branches incl. full map), Set::insert and every entry path keep the stored key and drop the supplied one; insert_key_value and Set::replace store the supplied key and return the old one; "
      "get_key_value, Set::get, take, remove_entry and all iterators expose the stored tag. Verus proves for all N both update_key branches of insert_i and that insert/checked_insert/Set::insert pass update_key=false while insert_key_value/Set::replace pass true, and that get_key_value/Set::get/take/remove_entry return the stored object.", BOUND + VASSUME + TB, KH + " on shape S_id; Verus for insert_i and the wrappers", "DESIGN 6/C12")
claim("C13", "For pairwise different keys (J up to 3 quick / 4 thorough; the unchecked body also with J = 5 at N <= 2, thorough J = 6, 8, any mix of present/absent, J may exceed len and N): each position equals get_mut in value and address, references pairwise distinct, writes land exactly on the requested values; "
      "two equal present keys: the call never returns and only the 'Overlapping keys' assertion fails, in both build profiles.", "Bounded: N<=3, J<=4 (J<=8 at N<=2 for the unchecked body); core's large-slice sort path is cut by a stub that asserts it is unreachable. " + TB, KH, "DESIGN 6/C13")
claim("C14", "a==b iff same length and both inclusions with equal values (oracle independent of the implementation's one-directional shortcut), symmetric, reflexive, != is the negation, neither operand modified; all capacity pairs up to 3x3, all slot orders; Map and Set. "
      "Verus proves Map::eq for ALL capacities N and M: true exactly when the lengths agree and every binding of the left map is bound to an equal value in the right map (with unique keys, C05, that is extensional equality).",
      BOUND + VASSUME + TB, KH + "; Map::eq discharged by Verus", "DESIGN 6/C14")
claim("C15", "Token ledger: after clone every stored key and value has been cloned exactly once, the clone holds only fresh elements, same len, well-formed; destroying either copy leaves the other intact; final sweep; Copy shapes: clone view equals original, compares equal, later changes do not propagate. Set likewise.",
      BOUND + TB, KH + " + ownership ledger", "DESIGN 6/C15")
claim("C16", "from_iter/collect/From<[_;N]>/Extend (by value and by reference) for Map and Set equal one-by-one insertion: probe key maps to (first key object, last value), len = number of distinct keys, source consumed exactly once front to back (recording iterator: L+1 calls), more distinct keys than N never returns.",
      BOUND + "source lengths up to N+2; " + TB, KH, "DESIGN 6/C16")
claim("C17", "Shape S_law: every == returns a fresh nondeterministic bool, pre-state only wf_weak (duplicates allowed): for every Map/Set operation, eq, from_iter, get_disjoint_mut and the set adaptors all memory-safety checks pass, ledger sweep finds each element destroyed exactly once, len<=capacity and iteration count == len, "
      "mutable references handed out together are pairwise distinct and inside the map. Wrong answers and the container's own panics are tolerated.", BOUND + TB, KH + " with nondeterministic comparison outcomes", "DESIGN 6/C17")
claim("C18", "insert_unchecked under (len<N or key present): Verus proves for all N that insert_i meets the full insert contract (result, slot permutation, stored-key identity, wf) and that its debug_assert holds exactly under that precondition; Kani proves insert_unchecked against the same model contract as insert and the ledger; "
      "Verus also proves insert_unchecked itself against exactly the interface contract of insert (insert_rel); get_disjoint_unchecked_mut under pairwise different keys satisfies the C13 contract (Kani).", BOUND + VASSUME + TB, "Verus contract on insert_i (all N); " + KH, "DESIGN 6/C18")

claim("C19", "Shape S_fmt (one marker byte per element, comparing sink over a fixed buffer): Display of Map/Set equals '{' + entries joined by ', ' + '}' built by hand; Debug of Map/Set equals core::fmt's debug_map/debug_set over an independently built array of the entries; "
      "Debug of Iter, IterMut, Keys, Values, ValuesMut, IntoIter, IntoKeys, IntoValues, Drain after a given number of steps equals debug_list of the not-yet-yielded entries; Debug of Union/Intersection/Difference equals debug_list of what a clone still yields; for Intersection and Difference additionally at 3x2/2x3 (thorough 3x3, 4x2) at the level of the items handed to DebugList::entries (entries replaced by a recording stub); formatting parameters ({:.1?}) reach the entries of Map and Set as in core's own rendering; container unchanged.",
      "Bounded: N<=2 quick / 3 thorough with every fill level; the alternate form {:#?} only for the empty container in quick and N=1 in thorough (core's PadAdapter costs ~12 min per entry under CBMC); SymmetricDifference and DifferenceRef Debug only in thorough / not covered. core::fmt is verified along, not trusted - except in the item-level units c19_debug_items_*, where DebugList::entries is stubbed (assumed: renders each item once, in order). " + TB,
      KH + " with an oracle rendered by core::fmt itself", "DESIGN 6/C19")
claim("C20", "With --features serde: bincode (legacy config) encode_into_slice announces len() and emits exactly len() entries (8+2*len bytes; 8+len for sets); decode_from_slice into a container of capacity M>=len (including M==len, M>N) yields an equal container with exactly the original bindings and consumes all bytes; Map and Set; every fill level.",
      "Bounded: N,M<=2 quick / 3 thorough; serde 1.0.219 and bincode 2.0.1 are trusted (verified along by CBMC but not specified). " + TB, KH + " on the serde feature build", "DESIGN 6/C20")
CLAIMS["C06"] = ("(a) every reference handed out (get, get_mut, get_key_value, Index, entry API, iterators, set adaptors, get_disjoint_mut, Set::get) lies inside the bytes of the container: Kani postconditions; "
                 "(b) for one harness per operation, instantiated with non-allocating element types and a buffer sink, the reachable call graph of Kani's linked program contains no function of crate alloc and no allocator entry point - with default features and with feature std; "
                 "(c) the crate builds with #![no_std] active.",
                 "Level 'other': (b) is a sound static over-approximation on the verifier's own program for the instantiated types, not a contract; it cannot see allocation inside user-supplied element types. " + TB,
                 "reference-containment postconditions (Kani) + reachable-call-graph frame analysis (goto-instrument) + no_std build", "DESIGN 6/C06")
CATEGORY = {"C06": "other"}

NOT_YET.update({
})


def main():
    checks = []
    for pid in sorted(CLAIMS):
        text, note, tech, ref = CLAIMS[pid]
        checks.append({
            "property_id": pid,
            "quick_cmd": "./check %s --tier quick" % pid,
            "thorough_cmd": "./check %s --tier thorough" % pid,
            "evidence_file": "/verif/evidence/%s.json" % pid,
            "replay_cmd_template": "./check %s --replay {path}" % pid,
            "engine": "contracts",
            "level_claimed": {"category": CATEGORY.get(pid, "proof"), "text": text, "design_ref": ref},
            "level_note": note,
            "technique": tech,
        })
    props = [json.loads(l)["id"] for l in open(os.path.join(VERIF, "properties.jsonl"))]
    na = []
    for pid in props:
        if pid not in CLAIMS:
            na.append({"property_id": pid, "reason": NOT_YET.get(pid, "check not built yet (work in progress; see DESIGN.md section 6 for the planned contracts)")})
    man = {
        "version": 1,
        "setup_cmd": "./setup.sh",
        "hooks": {
            "guard": "cfg(kani)",
            "enable": "no hook lives in /repo: the harness module, contract attributes and one cfg(kani) statement are injected into a scratch copy at check time (lib/vf.py: inject_kani)",
            "baseline_off_cmd": "cd /repo && cargo test --workspace --no-fail-fast --offline",
            "source_commits": [],
            "add_only": True,
        },
        "engines": [{
            "name": "contracts", "path": "/verif/check",
            "serves_properties": sorted(CLAIMS),
            "kind_free_text": "contract-based deductive verification: Kani function contracts / contract harnesses on the real crate, Verus on verbatim-extracted functions",
        }],
        "checks": checks,
        "not_applicable": na,
        "notes": "Exit 0 held / 1 VIOLATION / 2 undecided (lost anchor, unsupported construct, timeout) - never an alarm. Genuine defects fixed in /repo: see known_findings.json.",
    }
    json.dump(man, open(os.path.join(VERIF, "MANIFEST.json"), "w"), indent=1)
    print("claimed", sorted(CLAIMS), "not_applicable", [x["property_id"] for x in na])


if __name__ == "__main__":
    main()
