"""Registry of verification units.

A Kani unit is a generic harness function in /verif/kani/verif_kani/*.rs plus the
parameter sets (capacities ...) it is instantiated with per tier.  The driver
generates `verif_kani/gen.rs` from this registry on every run, so the registry is
the single source of truth for what is run and reported.
"""
import os

PASS = {"kind": "pass"}
CANARY = {"kind": "canary"}


def MAYPANIC(*allow):
    return {"kind": "maypanic", "allow": list(allow)}


def PANIC(*allow):
    return {"kind": "panic", "allow": list(allow)}


# panic sites of the container itself (matched against "description || function @ file:line")
FULL_PANIC = [r"insert_ii", r"index out of bounds", r"No more key-value slot"]
INDEX_PANIC = [r"No entry found for the key", r"expect_failed", r"index::.*::index", r"Index<"]
OVERLAP_PANIC = [r"Overlapping keys", r"get_disjoint_mut"]


def N_(*ns):
    return [{"N": n} for n in ns]


def NM(pairs):
    return [{"N": n, "M": m} for n, m in pairs]


def sq(k):
    return [(a, b) for a in range(k + 1) for b in range(k + 1)]


class KU:
    def __init__(self, name, call, props, quick, thorough=None, unwind="N+2", profile="debug",
                 expect=PASS, features=(), attrs=(), fn="", shape="", backend="kani-harness",
                 contracts=False, kind="proof", timeout="15m", needs=()):
        self.name = name
        self.call = call
        self.props = props
        self.quick = quick
        self.thorough = thorough if thorough is not None else quick
        self.unwind = unwind
        self.profile = profile
        self.expect = expect
        self.features = tuple(features)
        self.attrs = list(attrs)
        self.fn = fn
        self.shape = shape
        self.backend = backend
        self.contracts = contracts
        self.kind = kind
        self.timeout = timeout
        self.needs = list(needs)

    def params(self, tier):
        return self.thorough if tier == "thorough" else self.quick

    def all_params(self):
        seen, out = set(), []
        for p in list(self.quick) + list(self.thorough):
            key = tuple(sorted(p.items()))
            if key not in seen:
                seen.add(key)
                out.append(p)
        return out

    def hname(self, p):
        return self.name + "".join("_%s%d" % (k.lower(), v) for k, v in p.items())

    def hpath(self, p):
        return "verif_kani::gen::" + self.hname(p)

    def profiles(self):
        return ["debug", "release"] if self.profile == "both" else [self.profile]


def gen_rs(units):
    out = ["//! generated from /verif/lib/units.py on every run - do not edit",
           "use super::*;", "use super::spec::*;", "use crate::{Map, Set};", ""]
    for u in units:
        for p in u.all_params():
            env = dict(p)
            unwind = eval(u.unwind, {}, env)
            call = u.call.format(**p)
            for a in u.attrs:
                out.append(a.format(**p))
            for f in u.features:
                out.append('#[cfg(feature = "%s")]' % f)
            if u.kind == "proof":
                out.append("#[kani::proof]")
            out.append("#[kani::unwind(%d)]" % unwind)
            out.append("pub fn %s() { %s; }" % (u.hname(p), call))
            out.append("")
    return "\n".join(out)


UNITS = []


def add(*a, **k):
    UNITS.append(KU(*a, **k))


# ------------------------------------------------------------------ canary
add("canary_must_fail", "canary::h_canary_must_fail::<{N}>()", ["*"], N_(2), expect=CANARY,
    fn="Map::remove_index_read (false postcondition on purpose)", shape="S_u8")

# ------------------------------------------------------------------ C01
Q3 = N_(0, 1, 2)
T4 = N_(0, 1, 2, 3, 4)
T3 = N_(0, 1, 2, 3)
for sh, K, V in (("u8", "u8", "u8"), ("id", "Key", "u8")):
    S = "S_" + sh
    WIDE = N_(9) if sh == "u8" else []  # one capacity beyond every 4x/8x unrolling threshold (quick: S_u8 only)
    WIDET = N_(9)                        # thorough: both shapes
    add("c01_get_" + sh, "c01::h_get::<%s, %s, {N}>()" % (K, V), ["C01", "C06"], Q3 + WIDE, T4 + WIDET,
        fn="Map::get, contains_key, get_key_value", shape=S)
    add("c01_get_mut_" + sh, "c01::h_get_mut::<%s, %s, {N}>()" % (K, V), ["C01", "C05", "C06"], Q3 + WIDE, T4 + WIDET,
        fn="Map::get_mut", shape=S)
    add("c01_index_" + sh, "c01::h_index::<%s, %s, {N}>()" % (K, V), ["C01", "C06"], N_(1, 2), N_(1, 2, 3, 4),
        fn="Index::index, IndexMut::index_mut (key present)", shape=S)
    add("c01_index_absent_" + sh, "c01::h_index_absent::<%s, %s, {N}>()" % (K, V), ["C01"], Q3, T3,
        expect=PANIC(*INDEX_PANIC), profile="both", fn="Index::index (key absent: must panic)", shape=S)
    add("c01_index_mut_absent_" + sh, "c01::h_index_mut_absent::<%s, %s, {N}>()" % (K, V), ["C01"], Q3, T3,
        expect=PANIC(*INDEX_PANIC), profile="both", fn="IndexMut::index_mut (key absent: must panic)", shape=S)
    for w, nm, f in ((0, "insert", "Map::insert"), (1, "insert_key_value", "Map::insert_key_value"),
                     (2, "checked_insert", "Map::checked_insert")):
        add("c01_%s_%s" % (nm, sh), "c01::h_insert::<%s, %s, {N}>(%d)" % (K, V, w), ["C01", "C05", "C12"] + (["C03"] if w == 2 else []),
            (Q3 if w == 2 else N_(1, 2)) + WIDE, (T4 if w == 2 else N_(1, 2, 3, 4)) + WIDET, profile="both", fn=f, shape=S)
    for w, nm in ((0, "remove"), (1, "remove_entry"), (2, "remove_borrowed"), (3, "remove_entry_borrowed")):
        add("c01_%s_%s" % (nm, sh), "c01::h_remove::<%s, %s, {N}>(%d)" % (K, V, w), ["C01", "C05"] + (["C12"] if w in (1, 3) else []),
            (Q3 + WIDE) if w < 2 else N_(2), (T4 + WIDET) if w < 2 else N_(3), fn="Map::" + nm.replace("_borrowed", ""), shape=S)
    add("c01_retain_" + sh, "c01::h_retain::<%s, %s, {N}>()" % (K, V), ["C01", "C05"], Q3, T3, unwind="N+2",
        fn="Map::retain", shape=S)
    add("c01_clear_" + sh, "c01::h_clear::<%s, %s, {N}>()" % (K, V), ["C01", "C05"], Q3, T4, fn="Map::clear", shape=S)
    add("c01_drain_" + sh, "c01::h_drain_view::<%s, %s, {N}>()" % (K, V), ["C01", "C10"], Q3, T3, profile="both", fn="Map::drain", shape=S)

# ------------------------------------------------------------------ C02 / C04 (ledger + unwind monitor)
for w, P, nm in ((False, ["C02"], "own"), (True, ["C04"], "unw")):
    ws = "true" if w else "false"
    for i, op in enumerate(("insert", "insert_key_value", "checked_insert", "insert_unchecked")):
        add("%s_%s" % (nm, op), "life::h_insert::<{N}>(%d, %s)" % (i, ws), P + (["C18"] if i == 3 and not w else []),
            N_(1, 2) if i != 2 else Q3, T3 if i == 2 else N_(1, 2, 3), fn="Map::" + op, shape="S_tok")
    for i, op in enumerate(("remove", "remove_entry")):
        add("%s_%s" % (nm, op), "life::h_remove::<{N}>(%d, %s)" % (i, ws), P, Q3, T3, fn="Map::" + op, shape="S_tok")
    add("%s_lookup" % nm, "life::h_lookup::<{N}>(%s)" % ws, P, Q3, T3, fn="Map::get/get_mut/get_key_value/contains_key", shape="S_tok")
    add("%s_retain" % nm, "life::h_retain::<{N}>(%s)" % ws, P, Q3, T3, fn="Map::retain", shape="S_tok")
    add("%s_clear" % nm, "life::h_clear::<{N}>(%s)" % ws, P, Q3, T3, fn="Map::clear", shape="S_tok")
    add("%s_drain" % nm, "life::h_drain::<{N}>(%s)" % ws, P + ["C10"], Q3, T3, profile="both", fn="Map::drain, Drain::next, Drain::drop", shape="S_tok")
    add("%s_clone" % nm, "life::h_clone::<{N}>(%s)" % ws, P + ["C15"], Q3, T3, fn="Clone::clone for Map", shape="S_tok", needs=["hook:clone-local"] if w else [])
    add("%s_eq" % nm, "life::h_eq::<{N}, {M}>(%s)" % ws, P, NM([(0, 0), (1, 1), (2, 1), (2, 2)]), NM([(1, 2), (2, 2), (3, 2), (3, 3)]),
        unwind="max(N,M)+2", fn="PartialEq::eq for Map", shape="S_tok")
    for i, op in enumerate(("or_insert", "or_insert_with", "or_insert_with_key", "and_modify_or_insert",
                            "remove_or_into_key", "insert", "remove_entry")):
        add("%s_entry_%s" % (nm, op), "life::h_entry::<{N}>(%d, %s)" % (i, ws), P + (["C11"] if not w else []), N_(1, 2), N_(1, 2, 3), fn="Map::entry / Entry::" + op, shape="S_tok")
    for i, op in enumerate(("insert", "replace", "remove", "take", "retain", "clear", "contains_get", "drain", "clone")):
        add("%s_set_%s" % (nm, op), "life::h_set::<{N}>(%d, %s)" % (i, ws), P, N_(1, 2) if i < 2 else Q3, N_(1, 2, 3) if i < 2 else T3,
            fn="Set::" + op, shape="S_tok (sets)", needs=["hook:clone-local"] if (w and op == "clone") else [])
for i, op in enumerate(("into_iter", "into_keys", "into_values")):
    add("own_" + op, "life::h_into_iter::<{N}>(%d)" % i, ["C02", "C10"], Q3, T3, fn="Map::%s, IntoIter::next, drop" % op, shape="S_tok")
add("own_drop", "life::h_drop::<{N}>()", ["C02"], Q3, T3, fn="Drop::drop for Map", shape="S_tok")
add("own_from_iter", "life::h_from_iter::<{N}, {L}>()", ["C02", "C16"], [{"N": 1, "L": 2}, {"N": 2, "L": 3}], [{"N": 2, "L": 4}, {"N": 3, "L": 4}],
    unwind="max(N,L)+2", fn="FromIterator::from_iter for Map", shape="S_tok")

# ------------------------------------------------------------------ C03
for sh, K, V in (("u8", "u8", "u8"), ("id", "Key", "u8"), ("zst", "()", "()")):
    for i, op in enumerate(("insert", "insert_key_value", "entry_or_insert", "entry_or_insert_with", "entry_or_insert_with_key",
                            "entry_or_default", "vacant_insert")):
        ns_q = N_(0) if sh == "zst" else (N_(0, 1, 2) if i < 2 else N_(0, 2))
        ns_t = N_(0) if sh == "zst" else T3
        add("c03_full_%s_%s" % (op, sh), "c03::h_full_map::<%s, %s, {N}>(%d)" % (K, V, i), ["C03"] + (["C01"] if i < 2 and sh == "u8" else []) + (["C11"] if i >= 2 and sh == "u8" else []), ns_q, ns_t, profile="both",
            expect=PANIC(*FULL_PANIC), fn="Map::" + op.replace("entry_", "entry(..).").replace("vacant_insert", "VacantEntry::insert") + " on a full map (must panic)", shape="S_" + sh)
    if sh != "zst":
        for i, op in enumerate(("insert", "insert_key_value", "checked_insert", "entry_or_insert")):
            add("c03_replace_%s_%s" % (op, sh), "c03::h_full_replace::<%s, %s, {N}>(%d)" % (K, V, i), ["C03", "C12"], N_(1, 2), N_(1, 2, 3), profile="both",
                fn="Map::%s replacing a present key on a full map" % op, shape="S_" + sh)
for sh, T in (("u8", "u8"), ("id", "Key")):
    for i, op in enumerate(("insert", "replace", "extend", "extend_ref")):
        if op == "extend_ref" and sh == "id":
            pass
        add("c03_full_set_%s_%s" % (op, sh), "c03::h_full_set::<%s, {N}>(%d)" % (T, i), ["C03"] + (["C16"] if op.startswith("extend") else ["C07"]), N_(0, 2), T3, profile="both",
            expect=PANIC(*FULL_PANIC), fn="Set::%s on a full set (must panic)" % op, shape="S_" + sh)
add("c03_full_from_iter", "c03::h_full_from_iter::<{N}, {L}>()", ["C03", "C16"], [{"N": 0, "L": 1}, {"N": 1, "L": 2}, {"N": 2, "L": 3}], [{"N": 0, "L": 1}, {"N": 1, "L": 2}, {"N": 2, "L": 3}, {"N": 3, "L": 4}],
    unwind="L+2", profile="both", expect=PANIC(*FULL_PANIC), fn="FromIterator::from_iter for Map with more distinct keys than N (must panic)", shape="S_u8")
add("c03_full_set_from_iter", "c03::h_full_set_from_iter::<{N}, {L}>()", ["C03", "C16"], [{"N": 0, "L": 1}, {"N": 2, "L": 3}], [{"N": 0, "L": 1}, {"N": 1, "L": 2}, {"N": 2, "L": 3}, {"N": 3, "L": 4}],
    unwind="L+2", profile="both", expect=PANIC(*FULL_PANIC), fn="FromIterator::from_iter for Set with more distinct elements than N (must panic)", shape="S_u8")
for i, op in enumerate(("insert", "insert_key_value", "entry_or_insert")):
    add("c03_full_tok_" + op, "c03::h_full_tok::<{N}>(%d)" % i, ["C03"], N_(0, 2), T3, profile="both", expect=PANIC(*FULL_PANIC),
        fn="Map::%s on a full map: droppable at every callback before the panic" % op, shape="S_tok")
add("c03_checked_full_tok", "c03::h_checked_full_tok::<{N}>()", ["C03", "C02"], Q3, T3, profile="both",
    fn="Map::checked_insert rejected on a full map", shape="S_tok")

# ------------------------------------------------------------------ C07 (Set model), C12 for sets
for sh, T in (("u8", "u8"), ("id", "Key")):
    S = "S_" + sh
    W9 = N_(9) if sh == "u8" else []  # one capacity beyond every 4x/8x unrolling threshold
    add("c07_insert_" + sh, "c07::h_set_insert::<%s, {N}>(0)" % T, ["C07", "C12", "C05"], N_(1, 2) + W9, N_(1, 2, 3, 4) + N_(9), profile="both", fn="Set::insert", shape=S)
    add("c07_replace_" + sh, "c07::h_set_insert::<%s, {N}>(1)" % T, ["C07", "C12", "C05"], N_(1, 2), N_(1, 2, 3, 4), fn="Set::replace", shape=S)
    add("c07_lookup_" + sh, "c07::h_set_lookup::<%s, {N}>()" % T, ["C07", "C12", "C06"], Q3 + W9, T4 + N_(9), fn="Set::contains, Set::get", shape=S)
    for i, op in enumerate(("remove", "take", "remove_borrowed", "take_borrowed")):
        add("c07_%s_%s" % (op, sh), "c07::h_set_remove::<%s, {N}>(%d)" % (T, i), ["C07", "C05"] + (["C12"] if "take" in op else []),
            (Q3 + W9) if i < 2 else N_(2), (T4 + N_(9)) if i < 2 else N_(3), fn="Set::" + op.replace("_borrowed", ""), shape=S)
    add("c07_retain_" + sh, "c07::h_set_retain::<%s, {N}>()" % T, ["C07", "C05"], Q3, T3, fn="Set::retain", shape=S)
    add("c07_clear_" + sh, "c07::h_set_clear_drain::<%s, {N}>(false)" % T, ["C07"], Q3, T3, fn="Set::clear", shape=S)
    add("c07_drain_" + sh, "c07::h_set_clear_drain::<%s, {N}>(true)" % T, ["C07", "C10"], Q3, T3, profile="both", fn="Set::drain, SetDrain::next/len", shape=S)
    add("c07_extend_lazy_" + sh, "c07::h_set_extend::<%s, {N}, {L}>(2)" % T, ["C07", "C16", "C05"] + (["C12"] if sh == "id" else []), [{"N": 2, "L": 2}], [{"N": 2, "L": 3}, {"N": 3, "L": 3}],
        unwind="max(N,L)+2", fn="Extend<T>::extend for Set from an iterator without a size hint", shape=S)
    add("c07_extend_" + sh, "c07::h_set_extend::<%s, {N}, {L}>(0)" % T, ["C07", "C16", "C05"] + (["C12"] if sh == "id" else []), [{"N": 1, "L": 2}, {"N": 2, "L": 2}], [{"N": 2, "L": 3}, {"N": 3, "L": 3}],
        unwind="max(N,L)+2", fn="Extend<T>::extend for Set", shape=S)
    add("c07_extend_ref_" + sh, "c07::h_set_extend::<%s, {N}, {L}>(1)" % T, ["C07", "C16", "C05"] + (["C12"] if sh == "id" else []), [{"N": 2, "L": 2}], [{"N": 2, "L": 3}, {"N": 3, "L": 3}],
        unwind="max(N,L)+2", fn="Extend<&T>::extend for Set", shape=S)

# ------------------------------------------------------------------ C09 borrowing iterators, C05 observations
for sh, K, V in (("u8", "u8", "u8"), ("id", "Key", "u8")):
    S = "S_" + sh
    for i, op in enumerate(("iter", "keys", "values", "ref_into_iter")):
        add("c09_%s_%s" % (op, sh), "c09::h_iter::<%s, %s, {N}>(%d)" % (K, V, i), ["C09", "C06"] + (["C12"] if op in ("iter", "keys") and sh == "id" else []),
            (Q3 + N_(9)) if sh == "u8" else N_(2), (T3 + N_(9)) if sh == "u8" else N_(3), unwind="N+4",
            fn={"iter": "Map::iter, Iter::next/len/size_hint/count/clone", "keys": "Map::keys, Keys::*", "values": "Map::values, Values::*", "ref_into_iter": "IntoIterator for &Map"}[op], shape=S)
    for i, op in enumerate(("iter_mut", "values_mut", "mut_into_iter")):
        add("c09_%s_%s" % (op, sh), "c09::h_iter_mut::<%s, %s, {N}>(%d)" % (K, V, i), ["C09", "C05"], (Q3 + N_(9)) if sh == "u8" else N_(2), (T3 + N_(9)) if sh == "u8" else N_(3), unwind="N+4",
            fn={"iter_mut": "Map::iter_mut, IterMut::*", "values_mut": "Map::values_mut, ValuesMut::*", "mut_into_iter": "IntoIterator for &mut Map"}[op], shape=S)
    add("c09_set_iter_" + sh, "c09::h_set_iter::<%s, {N}>()" % K, ["C09", "C06"] + (["C12"] if sh == "id" else []), Q3 + (N_(9) if sh == "u8" else []), T3 + (N_(9) if sh == "u8" else []), unwind="N+4", fn="Set::iter, SetIter::*, IntoIterator for &Set", shape=S)
    add("c05_observe_" + sh, "c09::h_observe::<%s, %s, {N}>()" % (K, V), ["C05"], Q3, T3, unwind="N+3", fn="Map::iter/len/is_empty/capacity/get (observations)", shape=S)

# ------------------------------------------------------------------ C10 consuming iterators
for sh, K, V in (("u8", "u8", "u8"), ("id", "Key", "u8")):
    S = "S_" + sh
    for i, op in enumerate(("into_iter", "into_keys", "into_values")):
        add("c10_%s_%s" % (op, sh), "c10::h_into_iter::<%s, %s, {N}>(%d)" % (K, V, i), ["C10"] + (["C12"] if sh == "id" and i < 2 else []),
            Q3 if sh == "u8" else N_(2), T3 if sh == "u8" else N_(3), unwind="N+4", fn="Map::%s and its iterator" % op, shape=S)
    add("c10_drain_" + sh, "c10::h_drain::<%s, %s, {N}>()" % (K, V), ["C10", "C01"], Q3 if sh == "u8" else N_(2), T3 if sh == "u8" else N_(3), unwind="N+3", profile="both", fn="Map::drain, Drain::next/len/size_hint/drop", shape=S)
add("c10_into_iter_count_u8", "c10::h_into_iter_count::<u8, u8, {N}>()", ["C10"], Q3, T3, fn="IntoIter::count", shape="S_u8")
add("c10_set_into_iter_u8", "c10::h_set_into_iter::<u8, {N}>()", ["C10"], Q3, T3, unwind="N+4", fn="Set::into_iter, SetIntoIter::*", shape="S_u8")
add("c10_set_into_iter_id", "c10::h_set_into_iter::<Key, {N}>()", ["C10", "C12"], N_(2), N_(3), unwind="N+4", fn="Set::into_iter, SetIntoIter::*", shape="S_id")

# ------------------------------------------------------------------ C11 entry API
for sh, K, V in (("u8", "u8", "u8"), ("id", "Key", "u8")):
    S = "S_" + sh
    for i, op in enumerate(("or_insert", "or_insert_with", "or_insert_with_key", "or_default", "and_modify")):
        add("c11_%s_%s" % (op, sh), "c11::h_entry_or::<%s, %s, {N}>(%d)" % (K, V, i), ["C11", "C12", "C05"], N_(1, 2) + (N_(9) if sh == "u8" and i in (0, 4) else []), N_(1, 2, 3) + N_(9), profile="both" if i == 0 else "debug",
            fn="Map::entry, Entry::%s" % op, shape=S)
    for i, op in enumerate(("insert", "into_mut_into_key", "remove", "remove_entry")):
        add("c11_direct_%s_%s" % (op, sh), "c11::h_entry_direct::<%s, %s, {N}>(%d)" % (K, V, i), ["C11", "C12", "C05"], N_(1, 2) + (N_(9) if sh == "u8" and i == 0 else []), N_(1, 2, 3) + N_(9),
            fn="OccupiedEntry::{key,get,get_mut,%s} / VacantEntry::{key,insert,into_key}" % op, shape=S)

# ------------------------------------------------------------------ C14 equality, C15 clone (view)
QP = NM([(0, 0), (0, 1), (1, 1), (2, 1), (1, 2), (2, 2)])
TP = NM([(a, b) for a in range(4) for b in range(4)])
add("c14_map_eq_u8", "c14::h_map_eq::<u8, u8, {N}, {M}>()", ["C14"], QP, TP, unwind="max(N,M)+2", fn="PartialEq::eq for Map", shape="S_u8")
add("c14_map_eq_id", "c14::h_map_eq::<Key, Key, {N}, {M}>()", ["C14"], NM([(2, 2)]), NM([(2, 3), (3, 3)]), unwind="max(N,M)+2", fn="PartialEq::eq for Map", shape="S_id")
add("c14_self_eq_nr", "c14::h_self_eq_nr::<{N}>()", ["C14"], N_(1, 2), N_(1, 2, 3), unwind="N+2", fn="PartialEq::eq for Map and Set, an operand compared with itself, keys/values with a non-reflexive ==", shape="S_nr")
add("c14_set_eq_u8", "c14::h_set_eq::<u8, {N}, {M}>()", ["C14"], QP, TP, unwind="max(N,M)+2", fn="PartialEq::eq for Set", shape="S_u8")
for sh, K, V in (("u8", "u8", "u8"), ("id", "Key", "u8")):
    add("c15_clone_view_" + sh, "c14::h_clone_view::<%s, %s, {N}>()" % (K, V), ["C15"], Q3 + (N_(5) if sh == "u8" else []), T3 + (N_(5, 6) if sh == "u8" else []), fn="Clone::clone for Map", shape="S_" + sh)
    add("c15_set_clone_view_" + sh, "c14::h_set_clone_view::<%s, {N}>()" % K, ["C15"], Q3, T3, fn="Clone::clone for Set", shape="S_" + sh)

# ------------------------------------------------------------------ C16 bulk construction
for sh, K, V in (("u8", "u8", "u8"), ("id", "Key", "u8")):
    S = "S_" + sh
    add("c16_from_iter_" + sh, "c16::h_from_iter::<%s, %s, {N}, {L}>(0)" % (K, V), ["C16", "C05"], [{"N": 1, "L": 2}, {"N": 2, "L": 3}] if sh == "u8" else [{"N": 2, "L": 3}],
        [{"N": 2, "L": 4}, {"N": 3, "L": 4}, {"N": 3, "L": 5}] if sh == "u8" else [{"N": 2, "L": 4}, {"N": 3, "L": 4}], unwind="max(N,L)+2", fn="FromIterator::from_iter for Map", shape=S)
    add("c16_collect_" + sh, "c16::h_from_iter::<%s, %s, {N}, {L}>(1)" % (K, V), ["C16"], [{"N": 2, "L": 3}], [{"N": 3, "L": 4}], unwind="max(N,L)+2", fn="Iterator::collect into Map", shape=S)
    add("c16_from_array_" + sh, "c16::h_from_array::<%s, %s, {N}>()" % (K, V), ["C16"], Q3, T3, fn="From<[(K,V);N]> for Map", shape=S)
    add("c16_set_from_iter_" + sh, "c16::h_set_from::<%s, {N}, {L}>(0)" % K, ["C16", "C05"], [{"N": 2, "L": 3}], [{"N": 2, "L": 4}, {"N": 3, "L": 4}], unwind="max(N,L)+2", fn="FromIterator::from_iter for Set", shape=S)
    add("c16_set_collect_" + sh, "c16::h_set_from::<%s, {N}, {L}>(1)" % K, ["C16"], [{"N": 2, "L": 3}], [{"N": 3, "L": 4}], unwind="max(N,L)+2", fn="Iterator::collect into Set", shape=S)
    add("c16_set_from_array_" + sh, "c16::h_set_from_array::<%s, {N}>()" % K, ["C16"], Q3, T3, fn="From<[T;N]> for Set", shape=S)

# ------------------------------------------------------------------ C08 set algebra
def NMS(pairs):
    return [{"N": n, "M": m, "S": n + m} for n, m in pairs]


def NML(pairs):
    """every fill level of every capacity pair"""
    return [{"N": n, "M": m, "S": n + m, "A": la, "B": lb} for n, m in pairs for la in range(n + 1) for lb in range(m + 1)]


for i, op in enumerate(("union", "intersection", "difference", "symmetric_difference")):
    add("c08_" + op, "c08::h_setop::<{N}, {M}, {S}>(%d, {A}, {B})" % i, ["C08", "C06"], NML([(1, 1), (2, 1)]),
        NML([(1, 2), (2, 2)]) + [{"N": n, "M": m, "S": n + m, "A": a, "B": b} for n, m, a, b in ((3, 2, 3, 2), (3, 2, 2, 2), (3, 2, 3, 1), (2, 3, 2, 3), (2, 3, 2, 2), (2, 3, 1, 3))],
        unwind="max(N,M)+2", fn="Set::%s and its iterator (next, size_hint)" % op, shape="S_u8", timeout="30m")
    add("c08_fold_" + op, "c08::h_setop_fold::<{N}, {M}, {S}>(%d, {A}, {B})" % i, ["C08"], [{"N": 1, "M": 1, "S": 2, "A": 1, "B": 1}, {"N": 2, "M": 1, "S": 3, "A": 2, "B": 1}],
        NML([(2, 1), (2, 2)]), unwind="max(N,M,S)+2", fn="%s::fold" % op, shape="S_u8", timeout="30m")
add("c08_predicates", "c08::h_set_pred::<{N}, {M}>()", ["C08"], NM([(0, 0), (0, 1), (1, 1), (2, 1), (1, 2), (2, 2)]), NM(sq(3)), unwind="max(N,M)+2",
    fn="Set::is_subset, is_superset, is_disjoint", shape="S_u8")
add("c08_sub", "c08::h_set_sub::<{N}, {M}>()", ["C08"], NM([(0, 1), (1, 1), (2, 1), (2, 2)]), NM([(2, 2), (3, 2), (2, 3), (3, 3)]), unwind="max(N,M)+3",
    fn="Sub for &Set", shape="S_u8", timeout="30m")
add("c08_difference_ref", "c08::h_difference_ref::<{N}, {M}>()", ["C08"], NM([(1, 1), (2, 1), (1, 2)]), NM([(2, 2), (3, 2)]), unwind="max(N,M)+4",
    fn="Set::difference_ref and DifferenceRef", shape="Set<&u8>", timeout="30m")

# ------------------------------------------------------------------ K-contracts (function contracts on the real functions)
for sh, K, V in (("u8", "u8", "u8"),):
    add("kc_insert_ii_full_frame_" + sh, "core_contracts::h_insert_ii_full_frame::<%s, %s, {N}>(false)" % (K, V), ["C03", "C05"], N_(0, 1), N_(0, 1), timeout="30m",
        profile="both", expect=PANIC(*FULL_PANIC), contracts=True, kind="contract", backend="kani-contract",
        attrs=["#[kani::proof_for_contract(Map::<%s, %s, {N}>::insert_ii)]" % (K, V)],
        fn="Map::insert_ii under requires(full && key absent) modifies() - nothing is written before the panic", shape="S_" + sh)

# ------------------------------------------------------------------ C13 / C18 get_disjoint
SORT_CUT = "#[kani::stub(core::slice::sort::unstable::ipnsort, c13::ipnsort_unreachable)]"


def NJ(pairs):
    return [{"N": n, "J": j} for n, j in pairs]


add("c13_disjoint_u8", "c13::h_disjoint::<u8, {N}, {J}>(false)", ["C13"], NJ([(0, 1), (1, 1), (2, 1), (1, 2), (2, 2), (2, 3)]), NJ([(3, 2), (3, 3), (2, 4), (3, 4)]),
    unwind="max(N,J)+2", attrs=[SORT_CUT], fn="Map::get_disjoint_mut (pairwise different keys)", shape="S_u8", timeout="40m")
add("c13_disjoint_id", "c13::h_disjoint::<Key, {N}, {J}>(false)", ["C13"], NJ([(2, 2)]), NJ([(3, 3)]),
    unwind="max(N,J)+2", attrs=[SORT_CUT], fn="Map::get_disjoint_mut (pairwise different keys)", shape="S_id", timeout="40m")
add("c18_disjoint_unchecked_u8", "c13::h_disjoint::<u8, {N}, {J}>(true)", ["C18"], NJ([(1, 1), (2, 1), (1, 2), (2, 2)]), NJ([(3, 2), (2, 3), (3, 3)]),
    unwind="max(N,J)+2", attrs=[SORT_CUT], fn="Map::get_disjoint_unchecked_mut (documented precondition: pairwise different keys)", shape="S_u8", timeout="40m")
add("c18_disjoint_unchecked_wide", "c13::h_disjoint::<u8, {N}, {J}>(true)", ["C18", "C13"], NJ([(1, 5), (2, 5)]), NJ([(2, 6), (1, 8)]),
    unwind="max(N,J)+2", attrs=[SORT_CUT], fn="Map::get_disjoint_unchecked_mut with many requested keys (J >= 5: beyond any 2-bit packing of the request index; J = 33 for a 32-bit mask did not finish in 15 min and is not instantiated)", shape="S_u8", timeout="40m")
add("c13_disjoint_empty", "c13::h_disjoint_empty::<{N}>()", ["C13"], N_(0, 2), N_(0, 3), fn="Map::get_disjoint_mut with zero keys", shape="S_u8")
add("c13_overlap", "c13::h_disjoint_overlap::<{N}, {J}>()", ["C13"], NJ([(1, 2), (2, 2), (2, 3)]), NJ([(3, 3), (2, 4), (3, 4)]), unwind="max(N,J)+2", profile="both",
    attrs=[SORT_CUT], expect=PANIC(*OVERLAP_PANIC), fn="Map::get_disjoint_mut with two equal present keys (must panic)", shape="S_u8")

add("c06_big_whole", "c16::h_big_whole::<{N}>()", ["C06", "C16"], N_(1), N_(1), unwind="4", fn="FromIterator/From<[_;N]>/Extend/Clone/Sub/retain/drain/into_iter for Set and Map with a container larger than 8 KiB (size-threshold code is live in the analysed program)", shape="Big (8200-byte element)", timeout="30m")

# ------------------------------------------------------------------ C17 lawless Eq
LAW_OK = FULL_PANIC + OVERLAP_PANIC + INDEX_PANIC
for i, op in enumerate(("insert", "insert_key_value", "checked_insert", "remove", "remove_entry", "lookups", "entry_or_insert", "retain", "entry_remove")):
    add("c17_" + op, "c17::h_law_map::<{N}>(%d)" % i, ["C17"], N_(1, 2), N_(1, 2, 3), profile="both" if i in (0, 1, 2, 6) else "debug", expect=MAYPANIC(*LAW_OK),
        fn="Map::%s under arbitrary outcomes of every key comparison" % op, shape="S_law")
add("c17_eq", "c17::h_law_eq::<{N}, {M}>()", ["C17"], NM([(1, 1), (2, 2)]), NM([(2, 2), (3, 2), (3, 3)]), unwind="max(N,M)+2", expect=MAYPANIC(*LAW_OK),
    fn="PartialEq::eq for Map under lawless ==", shape="S_law")
add("c17_from_iter", "c17::h_law_from_iter::<{N}, {L}>()", ["C17"], [{"N": 1, "L": 2}, {"N": 2, "L": 3}], [{"N": 2, "L": 4}, {"N": 3, "L": 4}], unwind="max(N,L)+2",
    expect=MAYPANIC(*LAW_OK), fn="FromIterator for Map under lawless ==", shape="S_law")
add("c17_disjoint", "c17::h_law_disjoint::<{N}, {J}>()", ["C17"], NJ([(1, 2), (2, 2), (3, 2)]), NJ([(2, 3), (3, 3), (4, 3)]), unwind="max(N,J)+2", profile="both",
    attrs=[SORT_CUT], expect=MAYPANIC(*LAW_OK), fn="Map::get_disjoint_mut under lawless ==", shape="S_law", timeout="40m")
for i, op in enumerate(("insert", "replace", "remove", "take", "contains_get", "predicates", "union", "intersection", "difference", "symmetric_difference", "sub")):
    add("c17_set_" + op, "c17::h_law_set::<{N}, {M}>(%d)" % i, ["C17"], (NM([(1, 1)]) if i in (6, 7, 8) else NM([(1, 1), (2, 1)]) if i in (5, 10) else []) if i >= 5 else NM([(1, 0), (2, 0)]),
        NM([(2, 1), (2, 2)]) if i >= 5 else NM([(2, 0), (3, 0)]), unwind="N+M+3" if 6 <= i <= 9 else "max(N,M)+2", expect=MAYPANIC(*LAW_OK), profile="both" if i < 2 else "debug",
        fn="Set::%s under lawless ==" % op, shape="S_law", timeout="30m")

# ------------------------------------------------------------------ C19 Debug / Display
def NL(n, lens):
    return [{"N": n, "A": l} for l in lens]


add("c19_display_map", "c19::h_display_map::<{N}>({A})", ["C19", "C06"], NL(2, (0, 1, 2)) + NL(3, (3,)) + NL(5, (5,)), NL(3, (0, 1, 2, 3)) + NL(4, (4,)) + NL(5, (5,)) + NL(6, (6,)), unwind="max(N,4)+14", fn="Display for Map", shape="S_fmt", timeout="30m")
add("c19_display_set", "c19::h_display_set::<{N}>({A})", ["C19", "C06"], NL(2, (0, 1, 2)) + NL(3, (3,)) + NL(5, (5,)), NL(3, (0, 1, 2, 3)) + NL(4, (4,)) + NL(5, (5,)) + NL(6, (6,)), unwind="max(N,4)+14", fn="Display for Set", shape="S_fmt", timeout="30m")
add("c19_debug_map", "c19::h_debug_map::<{N}>(false, {A})", ["C19", "C06"], NL(2, (0, 1, 2)), NL(3, (0, 1, 2, 3)), unwind="max(N,6)+2", fn="Debug for Map ({:?})", shape="S_fmt", timeout="30m")
add("c19_debug_map_alt", "c19::h_debug_map::<{N}>(true, {A})", ["C19"], NL(1, (0,)), NL(1, (0, 1)), unwind="max(N,6)+2", fn="Debug for Map ({:#?})", shape="S_fmt", timeout="30m")
add("c19_debug_params", "c19::h_debug_params::<{N}>({A})", ["C19"], NL(1, (1,)), NL(2, (2,)), unwind="max(N,6)+2", fn="Debug for Map / Set with formatting parameters ({:.1?})", shape="S_fmt", timeout="30m")
add("c19_debug_set", "c19::h_debug_set::<{N}>(false, {A})", ["C19", "C06"], NL(2, (0, 1, 2)), NL(3, (0, 1, 2, 3)), unwind="max(N,6)+2", fn="Debug for Set ({:?})", shape="S_fmt", timeout="30m")
add("c19_debug_set_alt", "c19::h_debug_set::<{N}>(true, {A})", ["C19"], NL(1, (0,)), NL(1, (0, 1)), unwind="max(N,6)+2", fn="Debug for Set ({:#?})", shape="S_fmt", timeout="30m")
for i, nm in enumerate(("Iter", "IterMut", "Keys", "Values", "ValuesMut", "IntoIter", "IntoKeys", "IntoValues", "Drain")):
    add("c19_debug_" + nm.lower(), "c19::h_debug_iter::<{N}>(%d, {A}, {B})" % i, ["C19"], [{"N": 2, "A": 2, "B": 0}, {"N": 2, "A": 2, "B": 1}],
        [{"N": 3, "A": 3, "B": b} for b in (0, 1, 2, 3)] + [{"N": 3, "A": 2, "B": 1}], unwind="max(N,6)+2", fn="Debug for " + nm, shape="S_fmt", timeout="30m")
for i, nm in enumerate(("Union", "Intersection", "Difference", "SymmetricDifference")):
    add("c19_debug_" + nm.lower(), "c19::h_debug_adaptor::<{N}, {M}>(%d, {A}, {B}, {C})" % i, ["C19"], [{"N": 1, "M": 1, "A": 1, "B": 1, "C": c} for c in (0, 1)] if i < 3 else [],
        ([{"N": 2, "M": 1, "A": 2, "B": 1, "C": c} for c in (0, 1)] if i in (1, 2) else []) + [{"N": 1, "M": 1, "A": 1, "B": 1, "C": 0}], unwind="max(N,M,6)+2", fn="Debug for " + nm, shape="S_fmt", timeout="30m")

ENTRIES_STUB = "#[kani::stub(core::fmt::DebugList::entries, c19::entries_recording_stub)]"
# Union / SymmetricDifference (Chain) and DifferenceRef did not finish at 3x2 within 15 min with the same stub and are not instantiated
for i, nm in ((1, "Intersection"), (2, "Difference")):
    add("c19_debug_items_" + nm.lower(), "c19::h_debug_adaptor_items::<{N}, {M}>(%d, {A}, {B}, {C})" % i, ["C19"],
        [{"N": 3, "M": 2, "A": 3, "B": 2, "C": c} for c in (0, 1)] + [{"N": 2, "M": 3, "A": 2, "B": 3, "C": 0}],
        [{"N": 3, "M": 3, "A": 3, "B": 3, "C": c} for c in (0, 2)] + [{"N": 4, "M": 2, "A": 4, "B": 2, "C": 1}], unwind="max(N,M,6)+3", attrs=[ENTRIES_STUB],
        fn="Debug for " + nm + " - the items handed to DebugList::entries (entries itself stubbed by a recorder: assumed to render each item once, in order)", shape="S_fmt", timeout="30m")

# ------------------------------------------------------------------ C20 serde round trip (feature serde)
def NMA(triples):
    return [{"N": n, "M": m, "A": a} for n, m, a in triples]


add("c20_map_roundtrip", "c20::h_map_roundtrip::<{N}, {M}>({A})", ["C20"], NMA([(0, 0, 0), (1, 1, 1), (2, 2, 1), (2, 2, 2)]), NMA([(2, 3, 2), (3, 2, 2), (3, 3, 3), (1, 2, 0)]),
    unwind="max(N,M)+3", features=("serde",), fn="Serialize/Deserialize for Map through bincode", shape="S_u8", timeout="40m")
add("c20_set_roundtrip", "c20::h_set_roundtrip::<{N}, {M}>({A})", ["C20"], NMA([(0, 0, 0), (1, 1, 1), (2, 2, 1), (2, 2, 2)]), NMA([(2, 3, 2), (3, 2, 2), (3, 3, 3), (1, 2, 0)]),
    unwind="max(N,M)+3", features=("serde",), fn="Serialize/Deserialize for Set through bincode", shape="S_u8", timeout="40m")

# ------------------------------------------------------------------ C06: one representative unit per operation for the call-graph analysis
C06_EXTRA = {"c01_insert_u8", "c01_remove_u8", "c01_retain_u8", "c01_clear_u8", "c01_drain_u8", "c07_insert_u8", "c07_remove_u8", "c07_extend_u8",
             "c10_into_iter_u8", "c11_or_insert_with_u8", "c11_direct_remove_u8", "c13_disjoint_u8", "c14_map_eq_u8", "c14_set_eq_u8", "c15_clone_view_u8",
             "c16_from_iter_u8", "c08_predicates", "c08_sub", "c19_debug_iter", "c19_debug_union", "c01_checked_insert_u8", "c01_insert_key_value_u8"}
for _u in UNITS:
    if _u.name in C06_EXTRA and "C06" not in _u.props:
        _u.c06_only_n2 = True
        _u.props = list(_u.props) + ["C06"]

for i, nm in enumerate(("item_read", "item_write", "item_drop", "item_ref", "item_mut", "value_mut")):
    add("kc_" + nm, "core_contracts::h_accessor::<{N}>(%d)" % i, ["C02", "C05", "C06"] if nm in ("item_ref", "item_mut", "value_mut") else ["C02", "C05"], N_(1, 2), N_(1, 2, 3, 4),
        unwind="10", contracts=True, kind="contract", backend="kani-contract", attrs=["#[kani::proof_for_contract(Map::<u8, u8, {N}>::%s)]" % nm],
        fn="Map::%s (slot accessor: bounds, frame, value/address) - the contract Verus assumes for item_read and itself proves (against vstd's MaybeUninit model) for the other five" % nm, shape="S_u8")
add("kc_remove_index_read", "core_contracts::h_remove_index_read::<{N}>()", ["C01"], N_(2), N_(1, 2, 3), timeout="40m", unwind="10", contracts=True, kind="contract",
    backend="kani-contract", attrs=["#[kani::proof_for_contract(Map::<u8, u8, {N}>::remove_index_read)]"],
    fn="Map::remove_index_read function contract (exact swap-remove permutation in bytes, modifies(self))", shape="S_u8")
add("kc_remove_via_contract", "c01::h_remove::<u8, u8, {N}>(0)", ["C01"], N_(1, 2), N_(1, 2, 3), unwind="10", contracts=True, backend="kani-contract (caller, stub_verified)",
    attrs=["#[kani::stub_verified(Map::<u8, u8, {N}>::remove_index_read)]"],
    fn="Map::remove verified against the *contract* of remove_index_read (modular: callee body replaced by its contract)", shape="S_u8")
add("kc_remove_entry_via_contract", "c01::h_remove::<u8, u8, {N}>(1)", ["C01"], N_(2), N_(1, 2, 3), unwind="10", contracts=True, backend="kani-contract (caller, stub_verified)",
    attrs=["#[kani::stub_verified(Map::<u8, u8, {N}>::remove_index_read)]"],
    fn="Map::remove_entry verified against the contract of remove_index_read", shape="S_u8")

add("c01_lookup_selfref_nr", "c01::h_lookup_selfref::<{N}>()", ["C01"], N_(1, 2), N_(1, 2, 3), unwind="N+3", fn="Map::contains_key/get/get_key_value with a key reference taken from the map (non-reflexive ==)", shape="S_nr")
add("c07_lookup_selfref_nr", "c01::h_set_selfref::<{N}>()", ["C07"], N_(1, 2), N_(1, 2, 3), unwind="N+3", fn="Set::contains/get with a reference taken from the set (non-reflexive ==)", shape="S_nr")

# ------------------------------------------------------------------ additions after the first round of seeded changes
for i, op in enumerate(("iter", "keys", "values", "ref_into_iter")):
    add("c09_%s_zst" % op, "c09::h_iter::<(), (), {N}>(%d)" % i, ["C09"], N_(1), N_(1, 2), unwind="N+4", fn="borrowing iterators over zero-sized entries", shape="S_zst")
for i, op in enumerate(("iter_mut", "values_mut")):
    add("c09_%s_zstv" % op, "c09::h_iter_mut::<u8, (), {N}>(%d)" % i, ["C09"], N_(2), N_(2, 3), unwind="N+4", fn="Map::%s with a zero-sized value type" % op, shape="u8/()")
    add("c09_%s_zst" % op, "c09::h_iter_mut::<(), (), {N}>(%d)" % i, ["C09"], N_(1), N_(1, 2), unwind="N+4", fn="Map::%s over zero-sized entries" % op, shape="S_zst")
add("c07_lookup_zst", "c07::h_zst_lookup::<{N}>()", ["C07", "C01", "C05"], N_(1, 2), N_(1, 2, 3), unwind="N+4", fn="Set::contains/get/remove, Map::contains_key/get/get_mut/get_key_value/remove on zero-sized entries", shape="S_zst")
add("c07_drain_zst", "c07::h_set_clear_drain::<(), {N}>(true)", ["C07", "C10"], N_(1, 2), N_(1, 2, 3), unwind="N+4", profile="both", fn="Set::drain, SetDrain::next/len over a zero-sized element", shape="S_zst")
add("c09_set_iter_zst", "c09::h_set_iter::<(), {N}>()", ["C09"], N_(1), N_(1, 2), unwind="N+4", fn="Set::iter over a zero-sized element", shape="S_zst")
add("c10_into_iter_zst", "c10::h_into_iter::<(), (), {N}>(0)", ["C10"], N_(1), N_(1, 2), unwind="N+4", fn="Map::into_iter over zero-sized entries", shape="S_zst")
add("c15_clone_count_nodrop", "c14::h_clone_count_nodrop::<{N}>({A})", ["C15"], NL(2, (0, 1, 2)), NL(3, (0, 2, 3)), fn="Clone::clone for Map: clone calls counted for a type without a destructor", shape="Cc (Clone with effect, no Drop)")
add("c15_clone_count_zst", "c14::h_clone_count_zst::<{N}>({A})", ["C15", "C02"], NL(2, (0, 1, 2)), NL(3, (0, 2, 3)), fn="Clone::clone for Map of zero-sized elements: clones and drops counted", shape="Z (ZST with Clone/Drop effects)")
for sh, K, V in (("u8", "u8", "u8"), ("id", "Key", "u8")):
    add("c18_insert_unchecked_" + sh, "c01::h_insert::<%s, %s, {N}>(3)" % (K, V), ["C18", "C12"], N_(1, 2), N_(1, 2, 3, 4), profile="both",
        fn="Map::insert_unchecked under its documented precondition: the contract of insert", shape="S_" + sh)
add("kc_vacant_insert_full_frame", "core_contracts::h_vacant_insert_full_frame::<u8, u8, {N}>()", ["C03", "C05"], N_(0), N_(0), profile="both", unwind="N+5", timeout="30m",
    expect=PANIC(*FULL_PANIC), contracts=True, kind="contract", backend="kani-contract", attrs=["#[kani::proof_for_contract(crate::entry::VacantEntry::<u8, u8, {N}>::insert)]"],
    fn="VacantEntry::insert under requires(full && key absent) modifies() - nothing is written before the panic", shape="S_u8")

# ------------------------------------------------------------------ the insertion-core contract that the Verus layer assumes
for sh, K, V in (("u8", "u8", "u8"), ("id", "Key", "u8")):
    for w, nm in ((0, "insert_ii"), (1, "insert_ii_for_full")):
        add("kh_%s_post_%s" % (nm, sh), "core_contracts::h_insert_core_post::<%s, %s, {N}>(%d)" % (K, V, w), ["C01", "C05", "C12", "C18"],
            N_(1, 2, 3) + (N_(9) if sh == "u8" else []), N_(1, 2, 3, 4) + (N_(9) if sh == "u8" else []), profile="both", unwind="N+2",
            fn="Map::%s satisfies insert_post at slot level (the contract assumed by the Verus layer)" % nm, shape="S_" + sh)

# ------------------------------------------------------------------ derived iterator methods (fold / nth / last / count) against next()
ITERS = ("iter", "iter_mut", "keys", "values", "values_mut", "into_iter", "into_keys", "into_values", "drain", "set_iter", "set_into_iter", "set_drain")
for wi, nm in enumerate(ITERS):
    P = ["C09"] if wi in (0, 1, 2, 3, 4, 9) else ["C10"]
    for oi, op in enumerate(("fold", "nth", "last", "count")):
        # (N, len, cut, j)
        q = [(4, 4, 0, 1), (2, 2, 1, 1), (2, 0, 0, 0)] if op != "nth" else [(4, 4, 0, 1), (3, 3, 1, 1), (2, 2, 0, 2), (2, 0, 0, 0)]
        if op in ("fold", "last"):
            q = q + [(6, 6, 0, 1)]  # more than one round of a 4x-unrolled overriding fold/last (the harness buffers hold 7 items)
        th = q + [(4, 4, 0, 3), (4, 3, 1, 0), (3, 3, 3, 0), (1, 1, 0, 0)]
        add("drv_%s_%s" % (nm, op), "derived::h_derived::<{N}>(%d, %d, {A}, {B}, {C})" % (wi, oi), P,
            [{"N": n, "A": a, "B": b, "C": c} for n, a, b, c in q], [{"N": n, "A": a, "B": b, "C": c} for n, a, b, c in th],
            unwind="max(8,N+3)", fn="%s::%s agrees with stepping by next()" % (nm, op), shape="S_u8")

# ------------------------------------------------------------------ second round additions: defaulted trait methods, lying sources
for sh, K, V in (("u8", "u8", "u8"), ("id", "Key", "u8")):
    add("c15_clone_from_" + sh, "c14::h_clone_from::<%s, %s, {N}>()" % (K, V), ["C15"], N_(0, 2), T3, fn="Clone::clone_from for Map and Set", shape="S_" + sh)
add("own_clone_from", "life::h_clone_from::<{N}>()", ["C15", "C02"], N_(1, 2), N_(1, 2), fn="Clone::clone_from for Map (ownership ledger)", shape="S_tok")
for wi, nm in enumerate(("into_iter", "into_keys", "into_values", "drain")):
    for oi, op in enumerate(("nth", "last", "count", "fold")):
        add("own_%s_%s" % (nm, op), "life::h_consume_derived::<{N}>(%d, %d, false)" % (wi, oi), ["C02", "C10"], N_(2), N_(1, 2, 3), unwind="N+3",
            fn="%s().%s: every element destroyed exactly once" % (nm, op), shape="S_tok")
add("c03_full_from_liar", "c03::h_full_from_liar::<{N}, {L}>()", ["C03", "C16", "C17"], [{"N": 0, "L": 1}, {"N": 1, "L": 2}, {"N": 2, "L": 3}], [{"N": 0, "L": 1}, {"N": 1, "L": 2}, {"N": 2, "L": 3}, {"N": 3, "L": 4}],
    unwind="L+2", profile="both", expect=PANIC(*FULL_PANIC), fn="FromIterator for Map from a source whose size_hint under-reports (must panic, no write outside)", shape="S_u8")

add("c20_decode_arbitrary_set", "c20::h_decode_arbitrary::<{M}>({A}, true)", ["C20", "C05"], [{"M": 2, "A": 2}, {"M": 2, "A": 3}], [{"M": 2, "A": 3}, {"M": 3, "A": 3}, {"M": 1, "A": 2}],
    unwind="6", features=("serde",), fn="Deserialize for Set on input with repeated elements", shape="S_u8", timeout="40m")
add("c20_decode_arbitrary_map", "c20::h_decode_arbitrary::<{M}>({A}, false)", ["C20", "C05"], [{"M": 2, "A": 2}, {"M": 2, "A": 3}], [{"M": 2, "A": 3}, {"M": 3, "A": 3}, {"M": 1, "A": 2}],
    unwind="6", features=("serde",), fn="Deserialize for Map on input with repeated keys", shape="S_u8", timeout="40m")

add("c20_decode_in_place", "c20::h_decode_in_place::<{N}>({A})", ["C20"], NL(2, (1, 2)), NL(3, (0, 3)), unwind="N+4", features=("serde",),
    fn="Deserialize::deserialize_in_place for Set and Map", shape="S_u8", timeout="40m")


def units_for(prop):
    return [u for u in UNITS if prop in u.props or "*" in u.props]


# development aid (never set by the registered commands): try one wide capacity on every single-parameter unit
if os.environ.get("VERIF_WIDE_ALL"):
    _w = int(os.environ["VERIF_WIDE_ALL"])
    for _u in UNITS:
        if _u.expect["kind"] == "pass" and not _u.contracts and _u.thorough and all(set(p) == {"N"} for p in _u.thorough) \
                and {"N": _w} not in _u.thorough:
            _u.thorough = list(_u.thorough) + [{"N": _w}]
