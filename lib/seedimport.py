#!/usr/bin/env python3
"""Imports confirmed seeded changes from a working directory into /verif/seeded/<id>/
(patch.diff, demo.rs, meta.json) and prints the detection matrix.

usage: seedimport.py <dir-with-seed-dirs> [...]
"""
import json
import os
import re
import shutil
import sys

VERIF = os.path.dirname(os.path.dirname(os.path.abspath(__file__)))


def main():
    rows = []
    prefix = ""
    args = sys.argv[1:]
    if args and args[0].startswith("--prefix="):
        prefix = args[0].split("=", 1)[1]
        args = args[1:]
    for root in args:
        for name in sorted(os.listdir(root)):
            d = os.path.join(root, name)
            if not (os.path.isdir(d) and os.path.exists(os.path.join(d, "patch.diff"))):
                continue
            conf = json.load(open(os.path.join(d, "confirm.json"))) if os.path.exists(os.path.join(d, "confirm.json")) else {}
            if not conf.get("confirmed"):
                print("skip (not confirmed):", name)
                continue
            meta = json.load(open(os.path.join(d, "meta.json")))
            out = os.path.join(VERIF, "seeded", prefix + name)
            os.makedirs(out, exist_ok=True)
            shutil.copy(os.path.join(d, "patch.diff"), os.path.join(out, "patch.diff"))
            shutil.copy(os.path.join(d, "demo.rs"), os.path.join(out, "demo.rs"))
            checks = {}
            for tier in ("quick", "thorough"):
                f = os.path.join(d, "check-%s.json" % tier)
                if os.path.exists(f):
                    checks[tier] = json.load(open(f))
            caught = {}
            for tier, res in checks.items():
                for prop, v in res.items():
                    units = []
                    for l in v["lines"]:
                        m = re.search(r"VIOLATION .*?(?:unit=(\S+)|obligation='([^']*)')", l)
                        if l.startswith("VIOLATION"):
                            u = re.search(r"unit=(\S+)", l)
                            o = re.search(r"obligation=(.*)$", l)
                            units.append((u.group(1) if u else "verus/static") + ": " + (o.group(1)[:200] if o else ""))
                    caught["%s/%s" % (prop, tier)] = {"exit": v["rc"], "violations": units[:4]}
            m2 = {
                "property": meta.get("property"),
                "summary": meta.get("summary"),
                "needs_to_manifest": meta.get("needs_to_manifest"),
                "files": meta.get("files"),
                "written_by": "independent sub-agent given only the property text and its own worktree of /repo (commit c4a3b28)" + (
                    "; later rounds: also given one-line summaries of the earlier changes, to be avoided, and a hint at the kind of trigger wanted (size thresholds above 4 entries in round 3; small in-place edits in round 4; round 5: functions and mechanisms not used by earlier changes)" if prefix else ""),
                "author_ran": meta.get("ran") or meta.get("author_ran"),
                "confirmed_here": {
                    "how": "lib/seedtest.py confirm: patched scratch copy of /repo: cargo test --offline --workspace (131 lib tests + doc tests green); "
                           "demo.rs as tests/seed_demo.rs fails with the patch and passes without it",
                    "suite_with_patch": conf.get("suite_with_patch"),
                    "demo_flags": conf.get("demo_flags"),
                    "demo_with_patch_exit": conf.get("demo_with_patch_rc"),
                    "demo_without_patch_exit": conf.get("demo_without_patch_rc"),
                    "demo_with_patch_output": conf.get("demo_with_patch_tail"),
                },
                "checks_run": caught,
            }
            json.dump(m2, open(os.path.join(out, "meta.json"), "w"), indent=1)
            best = "MISSED"
            for k, v in caught.items():
                if v["exit"] == 1:
                    best = "caught (%s)" % k
                    break
                if v["exit"] == 2 and best == "MISSED":
                    best = "undecided (%s)" % k
            rows.append((prefix + name, best, (meta.get("summary") or "")[:90]))
    for r in rows:
        print("%-8s %-28s %s" % r)


if __name__ == "__main__":
    main()
