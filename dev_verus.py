#!/usr/bin/env python3
"""dev helper: assemble the Verus file from /repo (or $VERIF_REPO), run verus, print errors by function.
usage: dev_verus.py [--keep FILE] [--only NAME]"""
import os, sys, tempfile, shutil, re
sys.path.insert(0, os.path.join(os.path.dirname(os.path.abspath(__file__)), "lib"))
import vf, verus_units as VU
text, fns, lost, linemap = VU.assemble(vf.REPO)
for l in lost:
    print("LOST", l["function"], l["why"])
keep = sys.argv[sys.argv.index("--keep") + 1] if "--keep" in sys.argv else None
work = tempfile.mkdtemp(prefix="dev-verus-")
path = os.path.join(work, "micromap_core.rs")
open(path, "w").write(text)
if keep:
    shutil.copy(path, keep)
extra = []
if "--only" in sys.argv:
    extra = ["--verify-function", sys.argv[sys.argv.index("--only") + 1]]
r = vf.run_verus(path, extra=extra)
shutil.rmtree(work, ignore_errors=True)
js = r.get("json") or {}
print("wall %.1fs" % r.get("wall", 0), js.get("verification-results"))
errs = VU.parse_errors(r.get("stderr", ""), linemap, "micromap_core.rs")
for e in errs:
    print("-" * 70)
    print("FN:", e["fn"]["name"] if e["fn"] else None)
    print(e["text"][:1800])
if not errs and not js.get("verification-results"):
    print(r.get("stderr", "")[-3000:])
ok = {}
for m in js.get("times-ms", {}).get("smt", {}).get("smt-run-module-times", []):
    for fb in m.get("function-breakdown", []):
        ok[fb["function"]] = (fb.get("success"), fb.get("time"))
print({k.split("::", 1)[1]: v for k, v in ok.items()})
