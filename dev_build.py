#!/usr/bin/env python3
"""dev helper: build the injected crate under Kani (codegen only) and print compile errors"""
import os, shutil, subprocess, sys
sys.path.insert(0, os.path.join(os.path.dirname(os.path.abspath(__file__)), "lib"))
import vf, units as U
contracts = "--no-contracts" not in sys.argv
feats = [a.split("=")[1] for a in sys.argv if a.startswith("--features=")]
scratch, lost = vf.prepare("dev", U.UNITS, want_contracts=contracts)
print("scratch", scratch, "lost", lost)
cmd = ["cargo", "kani"] + vf.KANI_Z + ["--only-codegen", "--exact", "--harness", "verif_kani::gen::canary_must_fail_n2"]
if feats: cmd += ["--features", ",".join(feats)]
p = subprocess.run(cmd, cwd=scratch, env=vf.ENV, stdout=subprocess.PIPE, stderr=subprocess.STDOUT, text=True)
out = p.stdout
i = out.find("error")
print(out[i:i+6000] if i >= 0 else out[-800:])
if "--keep" not in sys.argv:
    shutil.rmtree(scratch, ignore_errors=True)
