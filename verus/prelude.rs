// ---- spec vocabulary (prelude) ----

/// Ghost state of slot `i` of the backing array: `Some(e)` when the slot holds the
/// live element `e`, `None` when it is uninitialised or its element was moved out
/// or destroyed.  A function of the `pairs` field only.
pub uninterp spec fn slot_of<K, V, const N: usize>(pairs: [MaybeUninit<(K, V)>; N], i: int) -> Option<(K, V)>;

/// Ghost flag: the map is inside its own `Drop::drop` (only there may an element
/// be destroyed while `len` still counts it).
pub uninterp spec fn destroying<K, V, const N: usize>(pairs: [MaybeUninit<(K, V)>; N]) -> bool;

/// the key type's `==` as a relation
pub open spec fn eq_rel<K: PartialEq>() -> spec_fn(K, K) -> bool {
    |a: K, b: K| a.eq_spec(&b)
}

/// hypothesis on the key type: `==` is symmetric
pub open spec fn eq_symmetric<K: PartialEq>() -> bool {
    forall|a: K, b: K| #![trigger a.eq_spec(&b)] a.eq_spec(&b) == b.eq_spec(&a)
}

impl<K, V, const N: usize> Map<K, V, N> {
    pub closed spec fn slot(&self, i: int) -> Option<(K, V)> {
        slot_of(self.pairs, i)
    }

    pub closed spec fn slen(&self) -> usize {
        self.len
    }

    pub closed spec fn in_drop(&self) -> bool {
        destroying(self.pairs)
    }

    /// representation invariant without key uniqueness: exactly the slots below
    /// `len` are live
    pub closed spec fn wf_weak(&self) -> bool {
        self.len <= N && forall|i: int| 0 <= i < N ==> (#[trigger] slot_of(self.pairs, i)).is_some() == (i < self.len)
    }

    /// key stored in live slot i
    pub closed spec fn key_at(&self, i: int) -> K {
        slot_of(self.pairs, i).unwrap().0
    }

    /// some live slot holds a key equal to k (by the key type's `==` specification)
    pub closed spec fn has_key(&self, k: K) -> bool where K: PartialEq {
        exists|j: int| 0 <= j < self.len && (#[trigger] slot_of(self.pairs, j)).unwrap().0.eq_spec(&k)
    }

    /// the keys of the live slots are pairwise unrelated by `rel` (in both orders)
    pub closed spec fn distinct_by(&self, rel: spec_fn(K, K) -> bool) -> bool {
        forall|i: int, j: int| #![trigger slot_of(self.pairs, i), slot_of(self.pairs, j)]
            0 <= i < self.len && 0 <= j < self.len && i != j
                ==> !rel(slot_of(self.pairs, i).unwrap().0, slot_of(self.pairs, j).unwrap().0)
    }

    /// C05: keys of the live slots are pairwise different under the key type's `==`
    pub closed spec fn keys_distinct(&self) -> bool where K: PartialEq {
        self.distinct_by(eq_rel::<K>())
    }

    /// every slot is empty
    pub closed spec fn all_empty(&self) -> bool {
        forall|i: int| 0 <= i < N ==> (#[trigger] slot_of(self.pairs, i)).is_none()
    }
}

/// `core::mem::drop(x)` destroys `x` and has no other effect on the caller's state
/// (assumed: vstd has no specification for it).  It may unwind.
pub assume_specification<T>[ core::mem::drop::<T> ](x: T)
    opens_invariants none;

/// `core::mem::replace(dest, src)` stores `src` and returns the previous value
/// (assumed: vstd has no specification for it).
pub assume_specification<T>[ core::mem::replace::<T> ](dest: &mut T, src: T) -> (r: T)
    ensures *final(dest) == src, r == *old(dest),
    opens_invariants none
    no_unwind;

impl<'a, K, V, const N: usize> OccupiedEntry<'a, K, V, N> {
    /// the entry points at a live slot of a well-formed table
    pub closed spec fn wf(&self) -> bool {
        self.table.wf_weak() && self.index < self.table.slen()
    }

    /// the (key, value) the entry stands for
    pub closed spec fn cur(&self) -> (K, V) {
        self.table.slot(self.index as int).unwrap()
    }

    /// the table as the entry sees it now / when the borrow ends
    pub closed spec fn tbl(&self) -> Map<K, V, N> {
        *self.table
    }

    #[verifier::prophetic]
    pub closed spec fn tbl_after(&self) -> Map<K, V, N> {
        *final(self.table)
    }

    pub closed spec fn idx(&self) -> usize {
        self.index
    }
}

impl<K, V, const N: usize> VacantEntry<'_, K, V, N> {
    pub closed spec fn vkey(&self) -> K {
        self.key
    }
}

impl<T, const N: usize> Set<T, N> {
    pub closed spec fn inner(&self) -> Map<T, (), N> {
        self.map
    }
}
