// ---- spec vocabulary (prelude): module `spec` of the generated file ----
// Everything here is specification or *proved* lemma text, except the items marked
// ASSUMED (specifications of core functions that vstd does not cover).

/// Ghost state of slot `i` of the backing array: `Some(e)` when the slot holds the
/// live element `e`, `None` when it is uninitialised or its element was moved out
/// or destroyed.  A function of the `pairs` field only, defined through vstd's model of
/// `MaybeUninit` (`mem_contents()`), so that the crate's direct uses of
/// `assume_init_ref/_mut` on slots are checked against the same state.
pub open spec fn slot_of<K, V, const N: usize>(pairs: [MaybeUninit<(K, V)>; N], i: int) -> Option<(K, V)> {
    mu_opt(pairs@[i])
}

/// a `MaybeUninit` cell as an option
pub open spec fn mu_opt<T>(m: MaybeUninit<T>) -> Option<T> {
    match m.mem_contents() {
        MemContents::Init(v) => Some(v),
        MemContents::Uninit => None,
    }
}

/// Ghost mode flag: "the code running is the map's own `Drop::drop`" - only there may an
/// element be destroyed while `len` still counts it.  An uninterpreted constant: nothing
/// but a `requires` can establish it, and only `Drop::drop` has that `requires`.
pub uninterp spec fn destroying_mode() -> bool;

/// the flag as seen from a map's storage (independent of the storage's contents)
pub open spec fn destroying<K, V, const N: usize>(pairs: [MaybeUninit<(K, V)>; N]) -> bool {
    destroying_mode()
}

/// the key type's `==` as a relation
pub open spec fn eq_rel<K: PartialEq>() -> spec_fn(K, K) -> bool {
    |a: K, b: K| a.eq_spec(&b)
}

/// hypothesis on the key type: `==` is symmetric
pub open spec fn eq_symmetric<K: PartialEq>() -> bool {
    forall|a: K, b: K| #![trigger a.eq_spec(&b)] a.eq_spec(&b) == b.eq_spec(&a)
}

// ---- Borrow: `core::borrow::Borrow::borrow` has no vstd specification.  The trait is
// given an external specification whose only clause is: *if* the impl is declared
// lawful (`obeys_borrow`), the result is the deterministic `borrow_spec` of the argument.
pub uninterp spec fn borrow_spec<K: ?Sized, Q: ?Sized>(k: &K) -> &Q;
pub uninterp spec fn obeys_borrow<K: ?Sized, Q: ?Sized>() -> bool;

#[verifier::external_trait_specification]
pub trait ExBorrow<Borrowed: ?Sized> {
    type ExternalTraitSpecificationFor: core::borrow::Borrow<Borrowed>;
    fn borrow(&self) -> (r: &Borrowed)
        ensures obeys_borrow::<Self, Borrowed>() ==> r == borrow_spec::<Self, Borrowed>(self);
}

/// hypothesis of C01's lookups: `Borrow` is a deterministic function and `Q`'s `==`
/// follows its specification
pub open spec fn lawful<K: Borrow<Q>, Q: PartialEq + ?Sized>() -> bool {
    obeys_borrow::<K, Q>() && Q::obeys_eq_spec()
}

/// hypothesis: looking a map up by its own key type goes through the blanket `impl<T> Borrow<T> for T`
pub open spec fn borrow_refl<K>() -> bool {
    obeys_borrow::<K, K>() && forall|k: K| #![trigger borrow_spec::<K, K>(&k)] *borrow_spec::<K, K>(&k) == k
}

/// the stored key `stored` answers a lookup by `q`
pub open spec fn matches<K: Borrow<Q>, Q: PartialEq + ?Sized>(stored: K, q: &Q) -> bool {
    borrow_spec::<K, Q>(&stored).eq_spec(q)
}

// ---- trigger plumbing (all proved): connects the terms that vstd's slice / iterator
// specifications speak about with `slot_of`
pub broadcast proof fn lemma_slot_link<K, V, const N: usize>(pairs: [MaybeUninit<(K, V)>; N], i: int)
    ensures (#[trigger] pairs@[i]).mem_contents().is_init() == slot_of(pairs, i).is_some(),
        pairs@[i].mem_contents().is_init() ==> slot_of(pairs, i) == Some(pairs@[i].mem_contents().value()),
{}

pub broadcast proof fn lemma_slot_wrap<K, V, const N: usize>(m: Map<K, V, N>, i: int)
    ensures #[trigger] slot_of(m.pairs, i) == m.slot(i),
{}

pub broadcast proof fn lemma_subrange_elem<A>(s: Seq<A>, a: int, b: int, i: int)
    requires 0 <= a <= i < b <= s.len(),
    ensures #![trigger s.subrange(a, b), s[i]] s.subrange(a, b)[i - a] == s[i],
{}

pub broadcast proof fn lemma_as_ref_elem<A>(s: Seq<A>, i: int)
    requires 0 <= i < s.len(),
    ensures #![trigger s.as_ref(), s[i]] *s.as_ref()[i] == s[i],
{}

// ---- Iterator::enumerate: a *provided* trait method that vstd leaves unspecified.  It is
// given a specification through a second external trait specification; because a clause
// there may not mention vstd's IteratorSpec functions (definition cycle), the clause is an
// uninterpreted relation and its meaning is the ASSUMED axiom below: enumerating a lawful
// iterator yields the same items, each paired with its position.
#[verifier::external_type_specification]
#[verifier::external_body]
#[verifier::accept_recursive_types(I)]
pub struct ExEnumerate<I>(core::iter::Enumerate<I>);

pub uninterp spec fn enumerate_rel<I>(it: I, r: core::iter::Enumerate<I>) -> bool;

#[verifier::external_trait_specification]
pub trait ExIteratorEnumerate {
    type ExternalTraitSpecificationFor: Iterator;
    type Item;
    fn enumerate(self) -> (r: core::iter::Enumerate<Self>) where Self: Sized
        ensures enumerate_rel(self, r);
    /// `by_ref` is the identity on the mutable reference (ASSUMED, like every clause of this trait)
    fn by_ref(&mut self) -> (r: &mut Self) where Self: Sized
        ensures *r == *old(self), *final(r) == *final(self);
}

#[verifier::prophetic]
pub open spec fn enumerate_post<I: Iterator>(it: I, r: core::iter::Enumerate<I>) -> bool {
    &&& r.obeys_prophetic_iter_laws()
    &&& r.remaining().len() == it.remaining().len()
    &&& forall|i: int| 0 <= i < it.remaining().len() ==> (#[trigger] r.remaining()[i]) == (i as usize, it.remaining()[i])
    &&& r.will_return_none() == it.will_return_none()
    &&& (r.decrease() is Some) == (it.decrease() is Some)
}

/// ASSUMED (axiom): the meaning of `Iterator::enumerate` on a lawful iterator
pub broadcast axiom fn axiom_enumerate<I: Iterator>(it: I, r: core::iter::Enumerate<I>)
    requires #[trigger] enumerate_rel(it, r), it.obeys_prophetic_iter_laws(),
    ensures enumerate_post(it, r);

/// trigger plumbing (proved from the axiom): an item of the inner iterator is an item of the enumeration
pub broadcast proof fn lemma_enumerate_elem<I: Iterator>(it: I, r: core::iter::Enumerate<I>, i: int)
    requires enumerate_rel(it, r), it.obeys_prophetic_iter_laws(), 0 <= i < it.remaining().len(),
    ensures #![trigger enumerate_rel(it, r), it.remaining()[i]] r.remaining()[i] == (i as usize, it.remaining()[i]),
{
    axiom_enumerate(it, r);
}

// ---- the crate's borrowing iterator `Iter` as a vstd iterator
/// vstd's prophetic iterator functions under names that are unambiguous inside an impl of IteratorSpecImpl
#[verifier::prophetic]
pub open spec fn it_rem<I: Iterator>(it: I) -> Seq<I::Item> { it.remaining() }
#[verifier::prophetic]
pub open spec fn it_none<I: Iterator>(it: I) -> bool { it.will_return_none() }
pub open spec fn it_dec<I: Iterator>(it: I) -> Option<nat> { it.decrease() }

/// a live slot seen as (&key, &value)
pub open spec fn slot_refs<'a, K, V>(p: &'a MaybeUninit<(K, V)>) -> (&'a K, &'a V) {
    (&p.mem_contents().value().0, &p.mem_contents().value().1)
}

impl<'a, K, V> vstd::std_specs::iter::IteratorSpecImpl for Iter<'a, K, V> {
    /// ASSUMED for the trait-level `next` (see specs.toml, "Iter::next(trait)")
    open spec fn obeys_prophetic_iter_laws(&self) -> bool { true }
    #[verifier::prophetic]
    open spec fn remaining(&self) -> Seq<(&'a K, &'a V)> {
        Seq::new(it_rem(self.iter).len(), |i: int| slot_refs(it_rem(self.iter)[i]))
    }
    #[verifier::prophetic]
    open spec fn will_return_none(&self) -> bool { it_none(self.iter) }
    open spec fn decrease(&self) -> Option<nat> { it_dec(self.iter) }
    /// no non-prophetic look-ahead is claimed
    open spec fn peek(&self, index: int) -> Option<(&'a K, &'a V)> { None }
}

impl<'a, K, V> vstd::std_specs::iter::IteratorSpecImpl for Keys<'a, K, V> {
    open spec fn obeys_prophetic_iter_laws(&self) -> bool { true }
    #[verifier::prophetic]
    open spec fn remaining(&self) -> Seq<&'a K> {
        Seq::new(it_rem(self.iter).len(), |i: int| it_rem(self.iter)[i].0)
    }
    #[verifier::prophetic]
    open spec fn will_return_none(&self) -> bool { it_none(self.iter) }
    open spec fn decrease(&self) -> Option<nat> { it_dec(self.iter) }
    open spec fn peek(&self, index: int) -> Option<&'a K> { None }
}

impl<'a, K, V> vstd::std_specs::iter::IteratorSpecImpl for Values<'a, K, V> {
    open spec fn obeys_prophetic_iter_laws(&self) -> bool { true }
    #[verifier::prophetic]
    open spec fn remaining(&self) -> Seq<&'a V> {
        Seq::new(it_rem(self.iter).len(), |i: int| it_rem(self.iter)[i].1)
    }
    #[verifier::prophetic]
    open spec fn will_return_none(&self) -> bool { it_none(self.iter) }
    open spec fn decrease(&self) -> Option<nat> { it_dec(self.iter) }
    open spec fn peek(&self, index: int) -> Option<&'a V> { None }
}

impl<'a, T> vstd::std_specs::iter::IteratorSpecImpl for SetIter<'a, T> {
    open spec fn obeys_prophetic_iter_laws(&self) -> bool { true }
    #[verifier::prophetic]
    open spec fn remaining(&self) -> Seq<&'a T> { it_rem(self.iter) }
    #[verifier::prophetic]
    open spec fn will_return_none(&self) -> bool { it_none(self.iter) }
    open spec fn decrease(&self) -> Option<nat> { it_dec(self.iter) }
    open spec fn peek(&self, index: int) -> Option<&'a T> { None }
}

/// trigger plumbing (proved): the same one and two levels up
pub broadcast proof fn lemma_keys_elem<'a, K, V>(it: Keys<'a, K, V>, i: int)
    requires 0 <= i < it.iter.iter.remaining().len(),
    ensures it.remaining()[i] == slot_refs(#[trigger] it.iter.iter.remaining()[i]).0,
{}

pub broadcast proof fn lemma_setiter_elem<'a, T>(it: SetIter<'a, T>, i: int)
    requires 0 <= i < it.iter.iter.iter.remaining().len(),
    ensures it.remaining()[i] == slot_refs(#[trigger] it.iter.iter.iter.remaining()[i]).0,
{}

/// trigger plumbing (proved): a slot the inner slice iterator will yield is an item `Iter` will yield
pub broadcast proof fn lemma_iter_elem<'a, K, V>(it: Iter<'a, K, V>, i: int)
    requires 0 <= i < it.iter.remaining().len(),
    ensures it.remaining()[i] == slot_refs(#[trigger] it.iter.remaining()[i]),
{}

/// ASSUMED: `<[T] as AsRef<[T]>>::as_ref` is the identity
pub assume_specification<T>[ <[T] as core::convert::AsRef<[T]>>::as_ref ](s: &[T]) -> (r: &[T])
    ensures r == s;

/// ASSUMED: `<[T] as AsMut<[T]>>::as_mut` is the identity on the mutable reference
pub assume_specification<T>[ <[T] as core::convert::AsMut<[T]>>::as_mut ](s: &mut [T]) -> (r: &mut [T])
    ensures r@ == old(s)@, final(r)@ == final(s)@;

impl<K, V, const N: usize> Map<K, V, N> {
    pub open spec fn slot(&self, i: int) -> Option<(K, V)> {
        slot_of(self.pairs, i)
    }

    pub open spec fn slen(&self) -> usize {
        self.len
    }

    pub open spec fn in_drop(&self) -> bool {
        destroying(self.pairs)
    }

    /// representation invariant without key uniqueness: exactly the slots below
    /// `len` are live
    pub open spec fn wf_weak(&self) -> bool {
        self.len <= N && forall|i: int| 0 <= i < N ==> (#[trigger] slot_of(self.pairs, i)).is_some() == (i < self.len)
    }

    /// key stored in live slot i
    pub open spec fn key_at(&self, i: int) -> K {
        slot_of(self.pairs, i).unwrap().0
    }

    /// value stored in live slot i
    pub open spec fn val_at(&self, i: int) -> V {
        slot_of(self.pairs, i).unwrap().1
    }

    /// some live slot holds a key equal to k (by the key type's `==` specification)
    pub open spec fn has_key(&self, k: K) -> bool where K: PartialEq {
        exists|j: int| 0 <= j < self.len && (#[trigger] slot_of(self.pairs, j)).unwrap().0.eq_spec(&k)
    }

    /// `j` is the first live slot whose key answers a lookup by `q`
    pub open spec fn first_match<Q: PartialEq + ?Sized>(&self, q: &Q, j: int) -> bool where K: Borrow<Q> {
        &&& 0 <= j < self.len
        &&& matches(slot_of(self.pairs, j).unwrap().0, q)
        &&& forall|i: int| 0 <= i < j ==> !matches((#[trigger] slot_of(self.pairs, i)).unwrap().0, q)
    }

    /// no live slot answers a lookup by `q`
    pub open spec fn no_match<Q: PartialEq + ?Sized>(&self, q: &Q) -> bool where K: Borrow<Q> {
        forall|i: int| 0 <= i < self.len ==> !matches((#[trigger] slot_of(self.pairs, i)).unwrap().0, q)
    }

    /// the map binds (a key equal to) `k` to a value equal to `v`: its first slot answering `k` holds such a value
    pub open spec fn binds(&self, k: K, v: V) -> bool where K: PartialEq + Borrow<K>, V: PartialEq {
        exists|j: int| 0 <= j < self.len && (#[trigger] slot_of(self.pairs, j)).unwrap().1.eq_spec(&v) && self.first_match(&k, j)
    }

    /// the key object `k` is stored in some live slot
    pub open spec fn stores_key(&self, k: K) -> bool {
        exists|i: int| 0 <= i < self.len && (#[trigger] slot_of(self.pairs, i)).unwrap().0 == k
    }

    /// the keys of the live slots are pairwise unrelated by `rel` (in both orders)
    pub open spec fn distinct_by(&self, rel: spec_fn(K, K) -> bool) -> bool {
        forall|i: int, j: int| #![trigger slot_of(self.pairs, i), slot_of(self.pairs, j)]
            0 <= i < self.len && 0 <= j < self.len && i != j
                ==> !rel(slot_of(self.pairs, i).unwrap().0, slot_of(self.pairs, j).unwrap().0)
    }

    /// C05: keys of the live slots are pairwise different under the key type's `==`
    pub open spec fn keys_distinct(&self) -> bool where K: PartialEq {
        self.distinct_by(eq_rel::<K>())
    }

    /// every slot is empty
    pub open spec fn all_empty(&self) -> bool {
        forall|i: int| 0 <= i < N ==> (#[trigger] slot_of(self.pairs, i)).is_none()
    }
}

/// The contract of the insertion cores (`insert_i`, `insert_ii`): what a call that
/// *returns* `r = (index, displaced)` has done to the table.
pub open spec fn insert_post<K: PartialEq, V, const N: usize>(pre: Map<K, V, N>, post: Map<K, V, N>, k: K, v: V, update_key: bool, r: (usize, Option<(K, V)>)) -> bool {
    &&& post.wf_weak()
    &&& r.0 <= pre.slen()
    // key found at slot r.0: same len, that slot replaced, everything else untouched
    &&& r.0 < pre.slen() ==> {
        &&& post.slen() == pre.slen()
        &&& pre.slot(r.0 as int).is_some()
        &&& forall|j: int| 0 <= j < N && j != r.0 ==> post.slot(j) == pre.slot(j)
        &&& !update_key ==> post.slot(r.0 as int) == Some((pre.slot(r.0 as int).unwrap().0, v))
                && r.1 == Some((k, pre.slot(r.0 as int).unwrap().1))
        &&& update_key ==> post.slot(r.0 as int) == Some((k, v)) && r.1 == pre.slot(r.0 as int)
        &&& K::obeys_eq_spec() ==> pre.key_at(r.0 as int).eq_spec(&k)
    }
    // key not found: appended at the old len, which must be below capacity
    &&& r.0 == pre.slen() ==> {
        &&& pre.slen() < N
        &&& post.slen() == pre.slen() + 1
        &&& post.slot(r.0 as int) == Some((k, v))
        &&& r.1.is_none()
        &&& forall|j: int| 0 <= j < N && j != r.0 ==> post.slot(j) == pre.slot(j)
    }
    // the slot chosen is the first one whose key equals k
    &&& K::obeys_eq_spec() ==> forall|j: int| 0 <= j < r.0 ==> !(#[trigger] slot_of(pre.pairs, j)).unwrap().0.eq_spec(&k)
    // C05: key uniqueness is preserved (stored key kept)
    &&& K::obeys_eq_spec() && eq_symmetric::<K>() && !update_key && pre.keys_distinct() ==> post.keys_distinct()
}

/// `insert_post` for some index, with the displaced pair `d` given: the form used by the
/// public wrappers (no quantifier at the interface, so callers chain by congruence)
pub open spec fn insert_rel<K: PartialEq, V, const N: usize>(pre: Map<K, V, N>, post: Map<K, V, N>, k: K, v: V, update_key: bool, d: Option<(K, V)>) -> bool {
    exists|p: (usize, Option<(K, V)>)| #[trigger] insert_post(pre, post, k, v, update_key, p) && p.1 == d
}

/// swap-remove of slot `j`, which is the first slot answering the lookup `q`
pub open spec fn remove_at<K: Borrow<Q>, Q: PartialEq + ?Sized, V, const N: usize>(pre: Map<K, V, N>, post: Map<K, V, N>, q: &Q, j: int) -> bool {
    &&& pre.first_match(q, j)
    &&& post.slen() == pre.slen() - 1
    &&& j != post.slen() ==> post.slot(j) == pre.slot(pre.slen() - 1)
    &&& forall|i: int| 0 <= i < post.slen() && i != j ==> post.slot(i) == pre.slot(i)
}

/// what holds whatever the lookup found
pub open spec fn remove_frame<K, V, const N: usize>(pre: Map<K, V, N>, post: Map<K, V, N>) -> bool {
    &&& post.wf_weak()
    &&& forall|rel: spec_fn(K, K) -> bool| #[trigger] pre.distinct_by(rel) ==> post.distinct_by(rel)
}

/// The contract of the swap-remove lookups (`remove_entry`): what a call that
/// returns `Some(kv)` / `None` has done to the table.
pub open spec fn remove_post<K: Borrow<Q>, Q: PartialEq + ?Sized, V, const N: usize>(pre: Map<K, V, N>, post: Map<K, V, N>, q: &Q, r: Option<(K, V)>) -> bool {
    &&& remove_frame(pre, post)
    &&& lawful::<K, Q>() ==> match r {
        Some(kv) => exists|j: int| (#[trigger] pre.slot(j)) == Some(kv) && remove_at(pre, post, q, j),
        None => pre.no_match(q) && post == pre,
    }
}

/// the same seen through `Map::remove` (only the value comes back)
pub open spec fn remove_val_rel<K: Borrow<Q>, Q: PartialEq + ?Sized, V, const N: usize>(pre: Map<K, V, N>, post: Map<K, V, N>, q: &Q, r: Option<V>) -> bool {
    &&& remove_frame(pre, post)
    &&& lawful::<K, Q>() ==> match r {
        Some(v) => exists|j: int| (#[trigger] pre.slot(j)).is_some() && pre.slot(j).unwrap().1 == v && remove_at(pre, post, q, j),
        None => pre.no_match(q) && post == pre,
    }
}

/// ... through `Set::take` (only the key comes back)
pub open spec fn remove_key_rel<K: Borrow<Q>, Q: PartialEq + ?Sized, V, const N: usize>(pre: Map<K, V, N>, post: Map<K, V, N>, q: &Q, r: Option<K>) -> bool {
    &&& remove_frame(pre, post)
    &&& lawful::<K, Q>() ==> match r {
        Some(k) => exists|j: int| (#[trigger] pre.slot(j)).is_some() && pre.slot(j).unwrap().0 == k && remove_at(pre, post, q, j),
        None => pre.no_match(q) && post == pre,
    }
}

/// ... through a boolean "something was removed"
pub open spec fn removed_rel<K: Borrow<Q>, Q: PartialEq + ?Sized, V, const N: usize>(pre: Map<K, V, N>, post: Map<K, V, N>, q: &Q, removed: bool) -> bool {
    &&& remove_frame(pre, post)
    &&& lawful::<K, Q>() ==> if removed {
        exists|j: int| (#[trigger] pre.slot(j)).is_some() && remove_at(pre, post, q, j)
    } else {
        pre.no_match(q) && post == pre
    }
}

/// ASSUMED: `core::mem::drop(x)` destroys `x` and has no other effect on the caller's
/// state (vstd has no specification for it).  It may unwind.
/// ASSUMED: `Option<&T>::copied` copies the referent out (vstd leaves it unspecified)
pub assume_specification<'a, T: Copy>[ Option::<&'a T>::copied ](o: Option<&'a T>) -> (r: Option<T>)
    ensures r == (match o { Some(x) => Some(*x), None => None });

pub assume_specification<T>[ core::mem::drop::<T> ](x: T)
    opens_invariants none;

/// ASSUMED: `core::mem::replace(dest, src)` stores `src` and returns the previous value
/// (vstd has no specification for it).
pub assume_specification<T>[ core::mem::replace::<T> ](dest: &mut T, src: T) -> (r: T)
    ensures *final(dest) == src, r == *old(dest),
    opens_invariants none
    no_unwind;

/// ASSUMED: `<[T]>::get_unchecked(i)` returns what `Index::index` returns when the index
/// is in bounds (its safety precondition, stated with vstd's own `SliceIndexSpec`).
pub assume_specification<T, I: SliceIndex<[T]>>[ <[T]>::get_unchecked::<I> ](s: &[T], i: I) -> (r: &<I as SliceIndex<[T]>>::Output)
    requires i.in_bounds(s),
    ensures i.index_postcondition(s, r),
    opens_invariants none
    no_unwind;

/// ASSUMED: `<[T]>::get_unchecked_mut(i)` = `IndexMut::index_mut` when the index is in bounds.
pub assume_specification<T, I: SliceIndex<[T]>>[ <[T]>::get_unchecked_mut::<I> ](s: &mut [T], i: I) -> (r: &mut <I as SliceIndex<[T]>>::Output)
    requires i.in_bounds(&*old(s)),
    ensures i.index_mut_postcondition(&*old(s), &*final(s), &*r, &*final(r)),
    opens_invariants none
    no_unwind;

/// ASSUMED: `MaybeUninit::write(val)` initialises the cell with `val` (the previous
/// content is overwritten without being dropped) and returns a reference to it.
pub assume_specification<T>[ MaybeUninit::<T>::write ](m: &mut MaybeUninit<T>, val: T) -> (r: &mut T)
    ensures *r == val, final(m).mem_contents() == MemContents::Init(*final(r)),
    opens_invariants none
    no_unwind;

/// ASSUMED: `MaybeUninit::assume_init_drop()` requires an initialised cell, destroys its
/// content in place and leaves the cell without a live value.  It may unwind.
pub assume_specification<T>[ MaybeUninit::<T>::assume_init_drop ](m: &mut MaybeUninit<T>)
    requires old(m).mem_contents().is_init(),
    ensures final(m).mem_contents() == MemContents::<T>::Uninit,
    opens_invariants none;

/// ASSUMED: `MaybeUninit::assume_init_read()` requires an initialised cell and returns a
/// bitwise copy of its content.  (That the cell must afterwards be treated as vacated is
/// the *ownership discipline*, which is what the contract of `Map::item_read` adds.)
pub assume_specification<T>[ MaybeUninit::<T>::assume_init_read ](m: &MaybeUninit<T>) -> (r: T)
    requires m.mem_contents().is_init(),
    ensures r == m.mem_contents().value(),
    opens_invariants none
    no_unwind;

impl<'a, K, V, const N: usize> OccupiedEntry<'a, K, V, N> {
    /// the entry points at a live slot of a well-formed table
    pub open spec fn wf(&self) -> bool {
        self.table.wf_weak() && self.index < self.table.slen()
    }

    /// the (key, value) the entry stands for
    pub open spec fn cur(&self) -> (K, V) {
        self.table.slot(self.index as int).unwrap()
    }

    /// the table as the entry sees it now / when the borrow ends
    pub open spec fn tbl(&self) -> Map<K, V, N> {
        *self.table
    }

    #[verifier::prophetic]
    pub open spec fn tbl_after(&self) -> Map<K, V, N> {
        *final(self.table)
    }

    pub open spec fn idx(&self) -> usize {
        self.index
    }
}

impl<K, V, const N: usize> VacantEntry<'_, K, V, N> {
    pub open spec fn vkey(&self) -> K {
        self.key
    }

    /// the table as the entry sees it now / when the borrow ends
    pub open spec fn vtbl(&self) -> Map<K, V, N> {
        *self.table
    }

    #[verifier::prophetic]
    pub open spec fn vtbl_after(&self) -> Map<K, V, N> {
        *final(self.table)
    }
}

impl<T, const N: usize> Set<T, N> {
    pub open spec fn inner(&self) -> Map<T, (), N> {
        self.map
    }
}
