//! C17 - misbehaving Eq may give wrong answers (or make the container panic) but
//! never memory unsafety.  Shape S_law: every `==` returns a fresh nondeterministic
//! bool, so one proof covers every outcome sequence.  Pre-state is only `wf_weak`
//! (duplicates are reachable under a lawless `==`).  Asserted: the ownership
//! ledger (each element destroyed exactly once), len <= capacity and
//! iteration count == len, returned mutable references pairwise distinct and inside
//! the map; all of Kani's memory-safety checks stay on.  No functional postcondition.

use super::tok::*;
use crate::{Map, Set};

fn lawless() {
    unsafe {
        LAWLESS = true;
    }
}

fn finish<V: Tokish, const N: usize>(m: Map<Tok, V, N>) {
    assert!(m.len <= N, "C17: len() never exceeds capacity()");
    assert!(m.iter().count() == m.len(), "C17: len() matches what iteration yields");
    drop(m);
}

/// which: 0 insert 1 insert_key_value 2 checked_insert 3 remove 4 remove_entry 5 lookups
/// 6 entry.or_insert 7 retain 8 entry remove
pub fn h_law_map<const N: usize>(which: u8) {
    lawless();
    let mut m = any_tok_weak::<Tok, N>();
    let k = Tok::mint(kani::any());
    kani::cover!(m.len == N, "reached");
    match which {
        0 => drop(m.insert(k, Tok::mint(0))),
        1 => drop(m.insert_key_value(k, Tok::mint(0))),
        2 => drop(m.checked_insert(k, Tok::mint(0))),
        3 => {
            drop(m.remove(&k));
            drop(k);
        }
        4 => {
            drop(m.remove_entry(&k));
            drop(k);
        }
        5 => {
            let a = m.get(&k).map(|t| t.id);
            let b = m.get_key_value(&k).map(|(x, y)| (x.id, y.id));
            let c = m.contains_key(&k);
            let d = m.get_mut(&k).map(|t| t.id);
            if let Some(id) = a {
                assert!(is_live(id), "C17: get returns a live element");
            }
            if let Some((x, y)) = b {
                assert!(is_live(x) && is_live(y), "C17: get_key_value returns live elements");
            }
            if let Some(id) = d {
                assert!(is_live(id), "C17: get_mut returns a live element");
            }
            drop(k);
        }
        6 => {
            let r = m.entry(k).or_insert(Tok::mint(0));
            assert!(is_live(r.id), "C17: or_insert returns a live element");
        }
        7 => {
            let keep: [bool; N] = kani::any();
            let mut calls = 0;
            m.retain(|a, b| {
                assert!(is_live(a.id) && is_live(b.id), "C17: retain shows live elements");
                let j = calls;
                calls += 1;
                j < N && keep[j]
            });
            drop(k);
        }
        _ => match m.entry(k) {
            crate::Entry::Occupied(e) => drop(e.remove_entry()),
            crate::Entry::Vacant(e) => drop(e.into_key()),
        },
    }
    finish(m);
    all_dead_except(0);
}

pub fn h_law_eq<const N: usize, const M: usize>() {
    lawless();
    let a = any_tok_weak::<Tok, N>();
    let b = any_tok_weak::<Tok, M>();
    kani::cover!(a.len == N && b.len == M, "reached");
    let r = a == b;
    finish(a);
    finish(b);
    all_dead_except(0);
}

pub fn h_law_from_iter<const N: usize, const L: usize>() {
    lawless();
    let keys: [u8; L] = kani::any();
    kani::cover!(true, "reached");
    let m: Map<Tok, Tok, N> = super::life::Src::<L> { keys, pos: 0 }.collect();
    finish(m);
    all_dead_except(0);
}

pub fn h_law_disjoint<const N: usize, const J: usize>() {
    lawless();
    let mut m = any_tok_weak::<Tok, N>();
    let ks: [Tok; J] = kani::any();
    let base = &m as *const Map<Tok, Tok, N> as usize;
    let size = core::mem::size_of::<Map<Tok, Tok, N>>();
    kani::cover!(m.len == N, "reached");
    {
        let mut refs: [&Tok; J] = [&ks[0]; J];
        let mut p = 0;
        while p < J {
            refs[p] = &ks[p];
            p += 1;
        }
        let r = m.get_disjoint_mut(refs);
        let mut addr: [usize; J] = [0; J];
        let mut p = 0;
        for o in r {
            if let Some(v) = o {
                assert!(is_live(v.id), "C17: get_disjoint_mut returns live elements");
                addr[p] = v as *const Tok as usize;
                assert!(addr[p] >= base && addr[p] + core::mem::size_of::<Tok>() <= base + size, "C17: returned references point inside the map");
            }
            p += 1;
        }
        let mut p = 0;
        while p < J {
            let mut q = p + 1;
            while q < J {
                assert!(addr[p] == 0 || addr[p] != addr[q], "C17: mutable references handed out together never alias");
                q += 1;
            }
            p += 1;
        }
    }
    finish(m);
    drop(ks);
    all_dead_except(0);
}

/// which: 0 insert 1 replace 2 remove 3 take 4 contains/get 5 is_subset/is_superset/is_disjoint
/// 6 union 7 intersection 8 difference 9 symmetric_difference 10 sub
pub fn h_law_set<const N: usize, const M: usize>(which: u8) {
    lawless();
    let mut a: Set<Tok, N> = super::spec::set_of_map(any_tok_weak::<(), N>());
    let b: Set<Tok, M> = super::spec::set_of_map(any_tok_weak::<(), M>());
    let k = Tok::mint(kani::any());
    kani::cover!(a.len() == N && b.len() == M, "reached");
    match which {
        0 => {
            a.insert(k);
        }
        1 => drop(a.replace(k)),
        2 => {
            a.remove(&k);
            drop(k);
        }
        3 => {
            drop(a.take(&k));
            drop(k);
        }
        4 => {
            let c = a.contains(&k);
            if let Some(t) = a.get(&k) {
                assert!(is_live(t.id), "C17: Set::get returns a live element");
            }
            drop(k);
        }
        5 => {
            let _ = a.is_subset(&b);
            let _ = a.is_superset(&b);
            let _ = a.is_disjoint(&b);
            drop(k);
        }
        6 | 7 | 8 | 9 => {
            let mut n = 0usize;
            macro_rules! walk {
                ($it:expr) => {{
                    let mut it = $it;
                    let mut i = 0;
                    while i < N + M + 1 {
                        if let Some(t) = it.next() {
                            assert!(is_live(t.id), "C17: set adaptors yield live elements");
                            n += 1;
                        }
                        i += 1;
                    }
                }};
            }
            match which {
                6 => walk!(a.union(&b)),
                7 => walk!(a.intersection(&b)),
                8 => walk!(a.difference(&b)),
                _ => walk!(a.symmetric_difference(&b)),
            }
            assert!(n <= N + M, "C17: an adaptor yields at most every stored element");
            drop(k);
        }
        _ => {
            let c: Set<Tok, N> = &a - &b;
            assert!(c.len() <= N, "C17: the difference fits the left capacity");
            drop(c);
            drop(k);
        }
    }
    assert!(a.len() <= N && a.iter().count() == a.len(), "C17: Set len() within capacity and equal to what iteration yields");
    drop(a);
    drop(b);
    all_dead_except(0);
}
