//! C19 - Debug/Display render exactly the current (or not-yet-yielded) entries.
//! Elements (shape S_fmt) render as one marker byte; the sink is a comparing
//! writer over a fixed buffer (no allocation): the oracle text is produced first
//! by `core::fmt`'s own `debug_map/debug_set/debug_list` over an *independently
//! built* array of the expected entries (or by hand for Display), then the real
//! value is formatted and every chunk it writes is compared against the oracle.

use super::spec::*;
use crate::{Map, Set};
use core::fmt::{self, Write};

#[derive(Clone, Copy, PartialEq, Eq)]
pub struct Mk(pub u8);

impl kani::Arbitrary for Mk {
    fn any() -> Self {
        let b: u8 = kani::any();
        kani::assume(b < 8); // eight marker values: containers of up to 8 pairwise different elements
        Mk(b)
    }
}
impl Shape for Mk {
    fn same(&self, o: &Self) -> bool {
        self.0 == o.0
    }
    fn ident(&self) -> u8 {
        self.0
    }
    fn make(i: u8, _t: u8) -> Self {
        Mk(i)
    }
}
impl fmt::Display for Mk {
    fn fmt(&self, f: &mut fmt::Formatter<'_>) -> fmt::Result {
        f.write_char((b'a' + self.0) as char)
    }
}
impl fmt::Debug for Mk {
    fn fmt(&self, f: &mut fmt::Formatter<'_>) -> fmt::Result {
        // an element's rendering may depend on the formatter's parameters (as {:.1?} of a float does): with a
        // precision the marker is a digit instead of a letter, so a container that does not hand the caller's
        // formatter on to its entries renders differently
        let base = if f.precision().is_some() { b'0' } else { b'A' };
        f.write_char((base + self.0) as char)
    }
}

pub const CAP: usize = 48;

/// first pass: records the oracle text; second pass: compares
pub struct Sink {
    pub buf: [u8; CAP],
    pub n: usize,
    pub comparing: bool,
    pub pos: usize,
    pub mismatch: bool,
    pub overflow: bool,
}

impl Sink {
    pub fn new() -> Sink {
        Sink { buf: [0; CAP], n: 0, comparing: false, pos: 0, mismatch: false, overflow: false }
    }
    pub fn start_compare(&mut self) {
        self.comparing = true;
        self.pos = 0;
    }
    pub fn matched(&self) -> bool {
        !self.mismatch && !self.overflow && self.pos == self.n
    }
}

impl fmt::Write for Sink {
    fn write_str(&mut self, s: &str) -> fmt::Result {
        let b = s.as_bytes();
        let mut i = 0;
        while i < b.len() {
            if !self.comparing {
                if self.n < CAP {
                    self.buf[self.n] = b[i];
                    self.n += 1;
                } else {
                    self.overflow = true;
                }
            } else {
                if self.pos >= self.n || self.buf[self.pos] != b[i] {
                    self.mismatch = true;
                }
                self.pos += 1;
            }
            i += 1;
        }
        Ok(())
    }
}

/// the expected entries, rendered by core::fmt itself
pub struct OracleMap<'a, const N: usize>(pub &'a [(Mk, Mk); N], pub usize, pub usize);
impl<const N: usize> fmt::Debug for OracleMap<'_, N> {
    fn fmt(&self, f: &mut fmt::Formatter<'_>) -> fmt::Result {
        let mut d = f.debug_map();
        let mut i = self.1;
        while i < self.2 {
            d.entry(&self.0[i].0, &self.0[i].1);
            i += 1;
        }
        d.finish()
    }
}
pub struct OracleSet<'a, const N: usize>(pub &'a [(Mk, Mk); N], pub usize, pub usize);
impl<const N: usize> fmt::Debug for OracleSet<'_, N> {
    fn fmt(&self, f: &mut fmt::Formatter<'_>) -> fmt::Result {
        let mut d = f.debug_set();
        let mut i = self.1;
        while i < self.2 {
            d.entry(&self.0[i].0);
            i += 1;
        }
        d.finish()
    }
}
/// what: 0 pairs, 1 keys, 2 values
pub struct OracleList<'a, const N: usize>(pub &'a [(Mk, Mk); N], pub usize, pub usize, pub u8);
impl<const N: usize> fmt::Debug for OracleList<'_, N> {
    fn fmt(&self, f: &mut fmt::Formatter<'_>) -> fmt::Result {
        let mut d = f.debug_list();
        let mut i = self.1;
        while i < self.2 {
            match self.3 {
                0 => d.entry(&(&self.0[i].0, &self.0[i].1)),
                1 => d.entry(&self.0[i].0),
                _ => d.entry(&self.0[i].1),
            };
            i += 1;
        }
        d.finish()
    }
}

fn entries<const N: usize>(m: &Map<Mk, Mk, N>) -> [(Mk, Mk); N] {
    let md = model(m);
    let mut e = [(Mk(0), Mk(0)); N];
    let mut i = 0;
    while i < N {
        if i < md.len {
            e[i] = md.slot(i);
        }
        i += 1;
    }
    e
}

macro_rules! check_fmt {
    ($sink:expr, $alt:expr, $oracle:expr, $real:expr, $msg:expr) => {{
        if $alt {
            let _ = write!($sink, "{:#?}", $oracle);
            $sink.start_compare();
            let _ = write!($sink, "{:#?}", $real);
        } else {
            let _ = write!($sink, "{:?}", $oracle);
            $sink.start_compare();
            let _ = write!($sink, "{:?}", $real);
        }
        assert!($sink.matched(), $msg);
    }};
}

pub fn h_debug_map<const N: usize>(alt: bool, len: usize) {
    let m: Map<Mk, Mk, N> = any_map_len(len);
    let pre = model(&m);
    let e = entries(&m);
    let mut s = Sink::new();
    check_fmt!(s, alt, OracleMap(&e, 0, len), m, "C19.Debug for Map: exactly the standard map rendering of the entries in iteration order");
    assert!(model(&m).same(&pre), "C19: formatting never changes the container");
    kani::cover!(true, "reached");
}

/// `{:.1?}`: formatting parameters reach the entries exactly as with the standard map/set rendering
pub fn h_debug_params<const N: usize>(len: usize) {
    let m: Map<Mk, Mk, N> = any_map_len(len);
    let e = entries(&m);
    let mut s = Sink::new();
    let _ = write!(s, "{:.1?}", OracleMap(&e, 0, len));
    s.start_compare();
    let _ = write!(s, "{:.1?}", m);
    assert!(s.matched(), "C19.Debug for Map: formatting parameters ({:.1?}) reach the entries as in the standard map rendering");
    let st: Set<Mk, N> = any_set_len(len);
    let md = smodel(&st);
    let mut e2 = [(Mk(0), Mk(0)); N];
    let mut i = 0;
    while i < N {
        if i < md.len {
            e2[i].0 = md.slot(i).0;
        }
        i += 1;
    }
    let mut s2 = Sink::new();
    let _ = write!(s2, "{:.1?}", OracleSet(&e2, 0, len));
    s2.start_compare();
    let _ = write!(s2, "{:.1?}", st);
    assert!(s2.matched(), "C19.Debug for Set: formatting parameters ({:.1?}) reach the elements as in the standard set rendering");
    kani::cover!(true, "reached");
}

pub fn h_debug_set<const N: usize>(alt: bool, len: usize) {
    let st: Set<Mk, N> = any_set_len(len);
    let md = smodel(&st);
    let mut e = [(Mk(0), Mk(0)); N];
    let mut i = 0;
    while i < N {
        if i < md.len {
            e[i].0 = md.slot(i).0;
        }
        i += 1;
    }
    let mut s = Sink::new();
    check_fmt!(s, alt, OracleSet(&e, 0, len), st, "C19.Debug for Set: exactly the standard set rendering of the elements in iteration order");
    assert!(smodel(&st).same(&md), "C19: formatting never changes the container");
    kani::cover!(true, "reached");
}

pub fn h_display_map<const N: usize>(len: usize) {
    let m: Map<Mk, Mk, N> = any_map_len(len);
    let pre = model(&m);
    let e = entries(&m);
    let mut s = Sink::new();
    let _ = s.write_char('{');
    let mut i = 0;
    while i < N {
        if i < len {
            if i > 0 {
                let _ = s.write_str(", ");
            }
            let _ = s.write_char((b'a' + e[i].0 .0) as char);
            let _ = s.write_str(": ");
            let _ = s.write_char((b'a' + e[i].1 .0) as char);
        }
        i += 1;
    }
    let _ = s.write_char('}');
    s.start_compare();
    let _ = write!(s, "{}", m);
    assert!(s.matched(), "C19.Display for Map: opening brace, 'key: value' entries joined by ', ', closing brace");
    assert!(model(&m).same(&pre), "C19: formatting never changes the container");
    kani::cover!(true, "reached");
}

pub fn h_display_set<const N: usize>(len: usize) {
    let st: Set<Mk, N> = any_set_len(len);
    let md = smodel(&st);
    let mut s = Sink::new();
    let _ = s.write_char('{');
    let mut i = 0;
    while i < N {
        if i < len {
            if i > 0 {
                let _ = s.write_str(", ");
            }
            let _ = s.write_char((b'a' + md.slot(i).0 .0) as char);
        }
        i += 1;
    }
    let _ = s.write_char('}');
    s.start_compare();
    let _ = write!(s, "{}", st);
    assert!(s.matched(), "C19.Display for Set: opening brace, elements joined by ', ', closing brace");
    assert!(smodel(&st).same(&md), "C19: formatting never changes the container");
    kani::cover!(true, "reached");
}

/// Debug of iterators after `steps` items were taken: lists exactly the entries
/// not yet yielded.  which: 0 Iter 1 IterMut 2 Keys 3 Values 4 ValuesMut 5 IntoIter
/// 6 IntoKeys 7 IntoValues 8 Drain
pub fn h_debug_iter<const N: usize>(which: u8, len: usize, steps: usize) {
    let mut m: Map<Mk, Mk, N> = any_map_len(len);
    let e = entries(&m);
    let taken = if steps < len { steps } else { len };
    let mut s = Sink::new();
    macro_rules! adv {
        ($it:expr) => {{
            if steps >= 1 { let _ = $it.next(); }
            if steps >= 2 { let _ = $it.next(); }
            if steps >= 3 { let _ = $it.next(); }
        }};
    }
    match which {
        0 => {
            let mut it = m.iter();
            adv!(it);
            check_fmt!(s, false, OracleList(&e, taken, len, 0), it, "C19.Debug for Iter: lists exactly the entries not yet yielded");
        }
        1 => {
            let mut it = m.iter_mut();
            adv!(it);
            check_fmt!(s, false, OracleList(&e, taken, len, 0), it, "C19.Debug for IterMut: lists exactly the entries not yet yielded");
        }
        2 => {
            let mut it = m.keys();
            adv!(it);
            check_fmt!(s, false, OracleList(&e, taken, len, 1), it, "C19.Debug for Keys: lists exactly the keys not yet yielded");
        }
        3 => {
            let mut it = m.values();
            adv!(it);
            check_fmt!(s, false, OracleList(&e, taken, len, 2), it, "C19.Debug for Values: lists exactly the values not yet yielded");
        }
        4 => {
            let mut it = m.values_mut();
            adv!(it);
            check_fmt!(s, false, OracleList(&e, taken, len, 2), it, "C19.Debug for ValuesMut: lists exactly the values not yet yielded");
        }
        // the consuming iterators pop from the back: the not-yet-yielded entries are the prefix
        5 => {
            let mut it = m.into_iter();
            adv!(it);
            check_fmt!(s, false, OracleList(&e, 0, len - taken, 0), it, "C19.Debug for IntoIter: lists exactly the entries not yet yielded");
        }
        6 => {
            let mut it = m.into_keys();
            adv!(it);
            check_fmt!(s, false, OracleList(&e, 0, len - taken, 1), it, "C19.Debug for IntoKeys: lists exactly the keys not yet yielded");
        }
        7 => {
            let mut it = m.into_values();
            adv!(it);
            check_fmt!(s, false, OracleList(&e, 0, len - taken, 2), it, "C19.Debug for IntoValues: lists exactly the values not yet yielded");
        }
        _ => {
            let mut it = m.drain();
            adv!(it);
            check_fmt!(s, false, OracleList(&e, taken, len, 0), it, "C19.Debug for Drain: lists exactly the entries not yet yielded");
        }
    }
    kani::cover!(true, "reached");
}

/// Debug of the lazy set adaptors after `steps` items: lists exactly what they will
/// still yield (computed by draining a clone).  which: 0 union 1 intersection
/// 2 difference 3 symmetric_difference
pub fn h_debug_adaptor<const N: usize, const M: usize>(which: u8, la: usize, lb: usize, steps: usize) {
    let a: Set<Mk, N> = any_set_len(la);
    let b: Set<Mk, M> = any_set_len(lb);
    let mut e = [(Mk(0), Mk(0)); 6];
    let mut n = 0usize;
    let mut s = Sink::new();
    macro_rules! go {
        ($mk:expr, $msg:expr) => {{
            let mut it = $mk;
            if steps >= 1 { let _ = it.next(); }
            if steps >= 2 { let _ = it.next(); }
            let mut rest = it.clone();
            macro_rules! take1 {
                () => {
                    if let Some(x) = rest.next() {
                        if n < 6 {
                            e[n].0 = *x;
                        }
                        n += 1;
                    }
                };
            }
            take1!();
            take1!();
            take1!();
            take1!();
            take1!();
            assert!(n <= 6 && N + M <= 4);
            check_fmt!(s, false, OracleList(&e, 0, n, 1), it, $msg);
        }};
    }
    match which {
        0 => go!(a.union(&b), "C19.Debug for Union: lists exactly the elements not yet yielded"),
        1 => go!(a.intersection(&b), "C19.Debug for Intersection: lists exactly the elements not yet yielded"),
        2 => go!(a.difference(&b), "C19.Debug for Difference: lists exactly the elements not yet yielded"),
        _ => go!(a.symmetric_difference(&b), "C19.Debug for SymmetricDifference: lists exactly the elements not yet yielded"),
    }
    kani::cover!(true, "reached");
}

// ------------------------------------------------------------------ Debug of the set adaptors, at the level of the items
// `impl Debug for Union/Intersection/Difference/SymmetricDifference/DifferenceRef` is
// `f.debug_list().entries(<an iterator>).finish()`.  Rendering through core::fmt costs minutes per
// element under CBMC, which kept the text-level units at 2x1.  Here `DebugList::entries` is replaced
// by a recording stub (an ASSUMED contract of the dependency: `entries` renders every item of its
// argument, in order, and nothing else) so that what is decided is the part the crate is responsible
// for: the iterator handed to `entries` yields exactly the elements the adaptor has not yielded yet.
pub static mut REC: [u8; 8] = [0xff; 8];
pub static mut REC_N: usize = 0;
pub static mut REC_CALLS: usize = 0;

pub fn entries_recording_stub<'a, 'b: 'a, 'c, D, I>(this: &'c mut fmt::DebugList<'a, 'b>, entries: I) -> &'c mut fmt::DebugList<'a, 'b>
where
    D: fmt::Debug,
    I: IntoIterator<Item = D>,
{
    unsafe { REC_CALLS += 1; }
    // every adaptor's Item is `&Mk`: one pointer
    assert!(core::mem::size_of::<D>() == core::mem::size_of::<*const Mk>(), "stub: the items given to DebugList::entries are references to elements");
    for d in entries {
        let p: *const Mk = unsafe { core::mem::transmute_copy(&d) };
        unsafe {
            if REC_N < 8 {
                REC[REC_N] = (*p).0;
            }
            REC_N += 1;
        }
    }
    this
}

/// which: 0 union 1 intersection 2 difference 3 symmetric_difference 4 difference_ref
pub fn h_debug_adaptor_items<const N: usize, const M: usize>(which: u8, la: usize, lb: usize, steps: usize) {
    let a: Set<Mk, N> = any_set_len(la);
    let b: Set<Mk, M> = any_set_len(lb);
    let mut s = Sink::new();
    macro_rules! go {
        ($mk:expr, $msg:expr) => {{
            let mut it = $mk;
            if steps >= 1 { let _ = it.next(); }
            if steps >= 2 { let _ = it.next(); }
            let mut rest = it.clone();
            let _ = write!(s, "{:?}", it);
            assert!(unsafe { REC_CALLS } == 1, "C19: Debug renders one list");
            let mut n = 0usize;
            macro_rules! take1 {
                () => {
                    if let Some(x) = rest.next() {
                        assert!(n < unsafe { REC_N } && n < 8 && unsafe { REC[n] } == x.0, $msg);
                        n += 1;
                    }
                };
            }
            take1!();
            take1!();
            take1!();
            take1!();
            take1!();
            take1!();
            assert!(rest.next().is_none() && N + M <= 6);
            assert!(n == unsafe { REC_N }, $msg);
        }};
    }
    match which {
        0 => go!(a.union(&b), "C19.Debug for Union: lists exactly the elements not yet yielded, in order (items handed to DebugList::entries)"),
        1 => go!(a.intersection(&b), "C19.Debug for Intersection: lists exactly the elements not yet yielded, in order (items handed to DebugList::entries)"),
        2 => go!(a.difference(&b), "C19.Debug for Difference: lists exactly the elements not yet yielded, in order (items handed to DebugList::entries)"),
        _ => go!(a.symmetric_difference(&b), "C19.Debug for SymmetricDifference: lists exactly the elements not yet yielded, in order (items handed to DebugList::entries)"),
    }
    kani::cover!(true, "reached");
}

/// the same for `DifferenceRef` (sets of references), which had no Debug unit at all
pub fn h_debug_difference_ref_items<const N: usize, const M: usize>(la: usize, lb: usize, steps: usize) {
    let pool: [Mk; 8] = [Mk(0), Mk(1), Mk(2), Mk(3), Mk(4), Mk(5), Mk(6), Mk(7)];
    let ia: Set<Mk, N> = any_set_len(la);
    let ib: Set<Mk, M> = any_set_len(lb);
    let mut a: Set<&Mk, N> = Set::new();
    let mut b: Set<&Mk, M> = Set::new();
    for x in ia.iter() {
        a.insert(&pool[x.0 as usize]);
    }
    for x in ib.iter() {
        b.insert(&pool[x.0 as usize]);
    }
    let mut s = Sink::new();
    let mut it = a.difference_ref(&b);
    if steps >= 1 { let _ = it.next(); }
    if steps >= 2 { let _ = it.next(); }
    let mut rest = it.clone();
    let _ = write!(s, "{:?}", it);
    assert!(unsafe { REC_CALLS } == 1, "C19: Debug renders one list");
    let mut n = 0usize;
    macro_rules! take1 {
        () => {
            if let Some(x) = rest.next() {
                assert!(n < unsafe { REC_N } && n < 8 && unsafe { REC[n] } == x.0, "C19.Debug for DifferenceRef: lists exactly the elements not yet yielded, in order (items handed to DebugList::entries)");
                n += 1;
            }
        };
    }
    take1!();
    take1!();
    take1!();
    take1!();
    assert!(rest.next().is_none() && N <= 4);
    assert!(n == unsafe { REC_N }, "C19.Debug for DifferenceRef: lists exactly the elements not yet yielded, in order (items handed to DebugList::entries)");
    kani::cover!(true, "reached");
}
