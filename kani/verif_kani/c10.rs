//! C10 - consuming iterators and drain yield exactly the contents, each once.
//! IntoIter pops from the back, Drain from the front; the contract states the
//! multiset through a position map so either direction satisfies it.

use super::spec::*;
use crate::{Map, Set};

/// which: 0 into_iter, 1 into_keys, 2 into_values
pub fn h_into_iter<K: Shape, V: Shape, const N: usize>(which: u8) {
    let m: Map<K, V, N> = any_map();
    let pre = model(&m);
    let mut seen: [bool; N] = [false; N];
    let mut yielded = 0;
    macro_rules! run {
        ($it:expr, $matches:expr) => {{
            let mut it = $it;
            let mut i = 0;
            while i < N + 2 {
                let rem = pre.len - core::cmp::min(i, pre.len);
                assert!(it.len() == rem && it.size_hint() == (rem, Some(rem)), "C10.into_iter: len/size_hint are exact before every step");
                let x = it.next();
                if i < pre.len {
                    assert!(x.is_some(), "C10.into_iter: yields as many items as the map held");
                    let x = x.unwrap();
                    // find an unseen stored entry that this item is
                    let mut found = false;
                    let mut s = 0;
                    while s < N {
                        if s < pre.len && !seen[s] && !found && $matches(&x, &pre.slot(s)) {
                            seen[s] = true;
                            found = true;
                        }
                        s += 1;
                    }
                    assert!(found, "C10.into_iter: every item is one of the stored entries, each yielded once");
                    yielded += 1;
                } else {
                    assert!(x.is_none(), "C10.into_iter: None forever after the end");
                }
                i += 1;
            }
        }};
    }
    match which {
        0 => run!(m.into_iter(), |x: &(K, V), s: &(K, V)| same_pair(x, s)),
        1 => run!(m.into_keys(), |x: &K, s: &(K, V)| x.same(&s.0)),
        _ => run!(m.into_values(), |x: &V, s: &(K, V)| x.same(&s.1)),
    }
    assert!(yielded == pre.len, "C10.into_iter: exactly the contents are yielded");
    kani::cover!(pre.len > 0 || N == 0, "reached");
}

pub fn h_into_iter_count<K: Shape, V: Shape, const N: usize>() {
    let m: Map<K, V, N> = any_map();
    let n = m.len();
    let take: usize = kani::any();
    kani::assume(take <= N);
    let mut it = m.into_iter();
    let mut i = 0;
    let mut got = 0;
    while i < N {
        if i < take && it.next().is_some() {
            got += 1;
        }
        i += 1;
    }
    assert!(it.count() == n - got, "C10.into_iter: count() agrees with what is left");
    kani::cover!(true, "reached");
}

pub fn h_drain<K: Shape, V: Shape, const N: usize>() {
    let mut m: Map<K, V, N> = any_map();
    let pre = model(&m);
    let take: usize = kani::any();
    kani::assume(take <= N + 1);
    {
        let mut d = m.drain();
        let mut seen: [bool; N] = [false; N];
        let mut i = 0;
        while i < N + 1 {
            if i < take {
                let rem = pre.len - core::cmp::min(i, pre.len);
                assert!(d.len() == rem && d.size_hint() == (rem, Some(rem)), "C10.drain: len/size_hint are exact before every step");
                let x = d.next();
                if i < pre.len {
                    assert!(x.is_some(), "C10.drain: yields as many items as the map held");
                    let x = x.unwrap();
                    let mut found = false;
                    let mut s = 0;
                    while s < N {
                        if s < pre.len && !seen[s] && !found && same_pair(&x, &pre.slot(s)) {
                            seen[s] = true;
                            found = true;
                        }
                        s += 1;
                    }
                    assert!(found, "C10.drain: every item is one of the stored entries, each yielded once");
                } else {
                    assert!(x.is_none(), "C10.drain: None forever after the end");
                }
            }
            i += 1;
        }
    }
    assert!(m.len() == 0 && m.is_empty() && model(&m).wf(), "C10.drain: the map is empty however much of the drain was consumed");
    let q: K = kani::any();
    assert!(m.get(&q).is_none() && m.iter().next().is_none(), "C10.drain: nothing is left");
    if N > 0 {
        let v: V = kani::any();
        assert!(m.insert(q, v).is_none() && m.len() == 1 && same_opt(&m.get(&q).copied(), &Some(v)), "C10.drain: the map is fully reusable");
    }
    kani::cover!(take > 0, "reached");
}

pub fn h_set_into_iter<T: Shape, const N: usize>() {
    let s: Set<T, N> = any_set();
    let pre = smodel(&s);
    let mut seen: [bool; N] = [false; N];
    let mut it = s.into_iter();
    let mut i = 0;
    while i < N + 2 {
        let rem = pre.len - core::cmp::min(i, pre.len);
        assert!(it.len() == rem && it.size_hint() == (rem, Some(rem)), "C10.Set::into_iter: len/size_hint are exact before every step");
        let x = it.next();
        if i < pre.len {
            assert!(x.is_some(), "C10.Set::into_iter: yields as many items as the set held");
            let x = x.unwrap();
            let mut found = false;
            let mut k = 0;
            while k < N {
                if k < pre.len && !seen[k] && !found && x.same(&pre.slot(k).0) {
                    seen[k] = true;
                    found = true;
                }
                k += 1;
            }
            assert!(found, "C10.Set::into_iter: every item is one of the stored elements, each yielded once");
        } else {
            assert!(x.is_none(), "C10.Set::into_iter: None forever after the end");
        }
        i += 1;
    }
    kani::cover!(pre.len > 0 || N == 0, "reached");
}
