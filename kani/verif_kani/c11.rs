//! C11 - the entry API is equivalent to the direct map operations (contracts stated
//! on the same model transitions as the direct operations of C01), C12 for the
//! stored key on the entry paths.

use super::spec::*;
use crate::{Entry, Map};

fn post_insert<K: Shape, V: Shape, const N: usize>(
    m: &Map<K, V, N>, pre: &Model<K, V, N>, k: K, stored: K, val: V, what: &'static str,
) {
    let post = model(m);
    let q: K = kani::any();
    let e = if q == k { Some((stored, val)) } else { pre.get(&q) };
    assert!(same_opt_pair(&post.get(&q), &e), "C11.entry: the key is bound to the entry's value (stored key kept) and no other entry is touched");
    assert!(post.len == pre.len + (if pre.contains(&k) { 0 } else { 1 }) && post.wf(), "C11.entry: len grows only when the key was vacant; keys stay unique");
}

/// which: 0 or_insert, 1 or_insert_with, 2 or_insert_with_key, 3 or_default, 4 and_modify + or_insert
pub fn h_entry_or<K: Shape, V: Shape + Default, const N: usize>(which: u8) {
    let mut m: Map<K, V, N> = any_map();
    let pre = model(&m);
    let k: K = kani::any();
    let v: V = kani::any();
    let w: V = kani::any();
    let old = pre.get(&k);
    kani::assume(old.is_some() || pre.len < N);
    let stored = old.map(|p| p.0).unwrap_or(k);
    let mut calls = 0usize;
    let mut mod_calls = 0usize;
    let mut key_ok = true;
    let addr;
    let got;
    {
        let e = m.entry(k);
        assert!(matches!(e, Entry::Occupied(_)) == old.is_some(), "C11.entry: Occupied exactly when the key is present");
        assert!(e.key().same(&stored), "C11.entry: key() is the stored key when occupied, the supplied key when vacant");
        let r: &mut V = match which {
            0 => e.or_insert(v),
            1 => e.or_insert_with(|| {
                calls += 1;
                v
            }),
            2 => e.or_insert_with_key(|kk| {
                calls += 1;
                if !kk.same(&k) {
                    key_ok = false;
                }
                v
            }),
            3 => e.or_default(),
            _ => e
                .and_modify(|x| {
                    mod_calls += 1;
                    *x = w;
                })
                .or_insert(v),
        };
        addr = r as *const V as usize;
        got = *r;
    }
    let newv = if which == 3 { V::default() } else { v };
    let expect_val = match (old, which) {
        (Some(_), 4) => w,
        (Some(p), _) => p.1,
        (None, _) => newv,
    };
    assert!(got.same(&expect_val), "C11.entry: or_insert* returns the entry's current value");
    if which == 1 || which == 2 {
        assert!(calls == (if old.is_none() { 1 } else { 0 }) && key_ok, "C11.entry: the closure runs exactly once and only when vacant (and sees the key)");
    }
    if which == 4 {
        assert!(mod_calls == (if old.is_some() { 1 } else { 0 }), "C11.entry: and_modify runs only when occupied");
    }
    assert!(addr == m.get(&k).unwrap() as *const V as usize, "C11.entry: the returned reference is the value stored for the key");
    post_insert(&m, &pre, k, stored, expect_val, "or");
    kani::cover!(old.is_some(), "reached");
    kani::cover!(old.is_none(), "reached absent");
}

/// which: 0 accessors+insert / vacant insert, 1 into_mut / vacant into_key, 2 remove, 3 remove_entry
pub fn h_entry_direct<K: Shape, V: Shape, const N: usize>(which: u8) {
    let mut m: Map<K, V, N> = any_map();
    let pre = model(&m);
    let k: K = kani::any();
    let v: V = kani::any();
    let old = pre.get(&k);
    // only the variants that insert need room; looking at a vacant entry of a full map
    // (key, into_key) must work too
    kani::assume(old.is_some() || pre.len < N || which == 1);
    let stored = old.map(|p| p.0).unwrap_or(k);
    let mut removed = false;
    let mut final_val: Option<V> = old.map(|p| p.1);
    match m.entry(k) {
        Entry::Occupied(mut e) => {
            assert!(old.is_some(), "C11.entry: Occupied only when present");
            let o = old.unwrap();
            assert!(e.key().same(&o.0) && e.get().same(&o.1) && e.get_mut().same(&o.1), "C11.Occupied: key/get/get_mut expose the stored entry");
            match which {
                0 => {
                    let r = e.insert(v);
                    assert!(r.same(&o.1), "C11.Occupied::insert: returns the old value (like Map::insert)");
                    assert!(e.get().same(&v), "C11.Occupied::insert: the entry now holds the new value");
                    final_val = Some(v);
                }
                1 => {
                    let r = e.into_mut();
                    assert!(r.same(&o.1), "C11.Occupied::into_mut: reference to the stored value");
                    *r = v;
                    final_val = Some(v);
                }
                2 => {
                    let r = e.remove();
                    assert!(r.same(&o.1), "C11.Occupied::remove: returns the value (like Map::remove)");
                    removed = true;
                }
                _ => {
                    let r = e.remove_entry();
                    assert!(same_pair(&r, &o), "C11.Occupied::remove_entry: returns the stored key and value (like Map::remove_entry)");
                    removed = true;
                }
            }
        }
        Entry::Vacant(e) => {
            assert!(old.is_none(), "C11.entry: Vacant only when absent");
            assert!(e.key().same(&k), "C11.Vacant::key: the supplied key");
            match which {
                0 | 2 => {
                    let r = e.insert(v);
                    assert!(r.same(&v), "C11.Vacant::insert: returns a reference to the inserted value");
                    final_val = Some(v);
                }
                _ => {
                    let kk = e.into_key();
                    assert!(kk.same(&k), "C11.Vacant::into_key: hands the key back");
                }
            }
        }
    }
    let post = model(&m);
    let q: K = kani::any();
    let e = if q == k {
        if removed { None } else { final_val.map(|x| (stored, x)) }
    } else {
        pre.get(&q)
    };
    assert!(same_opt_pair(&post.get(&q), &e), "C11.entry: same effect as the direct operation; no other entry touched");
    let exp_len = if removed { pre.len - 1 } else if old.is_none() && final_val.is_some() { pre.len + 1 } else { pre.len };
    assert!(post.len == exp_len && post.wf(), "C11.entry: len and key uniqueness as for the direct operation");
    kani::cover!(old.is_some(), "reached");
    kani::cover!(old.is_none(), "reached absent");
}
