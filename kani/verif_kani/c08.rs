//! C08 - set algebra yields exactly the mathematical result, without repeats.
//! All pairs of well-formed sets (any slot order) at the instantiated capacities.
//! Every yielded item must belong to the mathematical result and must not have been
//! yielded before; the number of items equals the size of the result; before every
//! step size_hint brackets what is still to come; after the end None stays None.

use super::spec::*;
use crate::Set;

/// plain element array of a set (live prefix first)
pub struct Elems<const N: usize> {
    pub e: [u8; N],
    pub len: usize,
}

fn elems<const N: usize>(s: &Set<u8, N>) -> Elems<N> {
    let m = map_of_set(s);
    let mut e = [0u8; N];
    let mut i = 0;
    while i < N {
        e[i] = unsafe { m.pairs[i].assume_init_ref() }.0;
        i += 1;
    }
    Elems { e, len: m.len }
}

fn member<const N: usize>(m: &Elems<N>, x: u8) -> bool {
    let mut r = false;
    let mut i = 0;
    while i < N {
        if i < m.len && m.e[i] == x {
            r = true;
        }
        i += 1;
    }
    r
}

fn same_elems<const N: usize>(a: &Elems<N>, b: &Elems<N>) -> bool {
    let mut ok = a.len == b.len;
    let mut i = 0;
    while i < N {
        if i < a.len && a.e[i] != b.e[i] {
            ok = false;
        }
        i += 1;
    }
    ok
}

/// is x in the mathematical result of operation `which` (0 union, 1 intersection,
/// 2 difference, 3 symmetric difference)
fn in_result<const N: usize, const M: usize>(which: u8, a: &Elems<N>, b: &Elems<M>, x: u8) -> bool {
    let (ia, ib) = (member(a, x), member(b, x));
    match which {
        0 => ia || ib,
        1 => ia && ib,
        2 => ia && !ib,
        _ => ia != ib,
    }
}

fn result_size<const N: usize, const M: usize>(which: u8, a: &Elems<N>, b: &Elems<M>) -> usize {
    let mut c = 0;
    let mut i = 0;
    while i < N {
        if i < a.len && in_result(which, a, b, a.e[i]) {
            c += 1;
        }
        i += 1;
    }
    let mut j = 0;
    while j < M {
        // elements of b not in a (only union and symmetric difference can contain them)
        if j < b.len && !member(a, b.e[j]) && in_result(which, a, b, b.e[j]) {
            c += 1;
        }
        j += 1;
    }
    c
}

pub struct St {
    pub total: usize,
    pub q: u8,
    pub n: usize,
    pub cnt: usize,
    pub ended: bool,
}

fn step<'a, I: Iterator<Item = &'a u8>, const N: usize, const M: usize>(
    it: &mut I, st: &mut St, which: u8, ma: &Elems<N>, mb: &Elems<M>, left: Option<(usize, usize)>,
) {
    let (lo, hi) = it.size_hint();
    assert!(st.n <= st.total, "C08: yields no more items than the mathematical result has");
    let remaining = st.total - st.n;
    assert!(lo <= remaining, "C08: size_hint lower bound never exceeds the number of items still to come");
    assert!(hi.is_none() || remaining <= hi.unwrap(), "C08: size_hint upper bound is never below the number of items still to come");
    match it.next() {
        Some(x) => {
            assert!(!st.ended, "C08: after the end the iterator keeps returning None");
            assert!(in_result(which, ma, mb, *x), "C08: every yielded element belongs to the mathematical result");
            if let Some((lo, hi)) = left {
                let p = x as *const u8 as usize;
                assert!(p >= lo && p < hi, "C08: intersection/difference yield references to the left operand's own elements");
            }
            if *x == st.q {
                st.cnt += 1;
            }
            st.n += 1;
        }
        None => {
            st.ended = true;
            assert!(st.n == st.total, "C08: the iterator ends only after the whole mathematical result was yielded");
        }
    }
}

/// One traversal, written without a loop over the steps (a harness loop would raise
/// the unwinding bound of every slice loop inside the crate).  For a symbolic probe
/// `q` the number of times `q` is yielded must equal the indicator of the
/// mathematical result - so every element of the result comes exactly once and
/// nothing else comes at all.
macro_rules! traverse {
    ($it:expr, $which:expr, $a:expr, $b:expr, $ma:expr, $mb:expr, $S:expr, $left_refs:expr) => {{
        let mut it = $it;
        let mut st = St { total: result_size($which, &$ma, &$mb), q: kani::any(), n: 0, cnt: 0, ended: false };
        let left = if $left_refs {
            let lo = &$a as *const _ as usize;
            Some((lo, lo + core::mem::size_of_val(&$a)))
        } else {
            None
        };
        step(&mut it, &mut st, $which, &$ma, &$mb, left);
        step(&mut it, &mut st, $which, &$ma, &$mb, left);
        if $S >= 1 { step(&mut it, &mut st, $which, &$ma, &$mb, left); }
        if $S >= 2 { step(&mut it, &mut st, $which, &$ma, &$mb, left); }
        if $S >= 3 { step(&mut it, &mut st, $which, &$ma, &$mb, left); }
        if $S >= 4 { step(&mut it, &mut st, $which, &$ma, &$mb, left); }
        if $S >= 5 { step(&mut it, &mut st, $which, &$ma, &$mb, left); }
        if $S >= 6 { step(&mut it, &mut st, $which, &$ma, &$mb, left); }
        assert!($S <= 6);
        assert!(st.ended && st.n == st.total, "C08: exactly the mathematical result is yielded");
        assert!(st.cnt == (if in_result($which, &$ma, &$mb, st.q) { 1 } else { 0 }), "C08: each element of the mathematical result is yielded exactly once, nothing else is");
    }};
}

/// which: 0 union, 1 intersection, 2 difference, 3 symmetric_difference
pub fn h_setop<const N: usize, const M: usize, const S: usize>(which: u8, la: usize, lb: usize) {
    assert!(S == N + M);
    let a: Set<u8, N> = any_set_len(la);
    let b: Set<u8, M> = any_set_len(lb);
    let (ma, mb) = (elems(&a), elems(&b));
    match which {
        0 => {
            traverse!(a.union(&b), 0, a, b, ma, mb, S, false);
        }
        1 => {
            traverse!(a.intersection(&b), 1, a, b, ma, mb, S, true);
        }
        2 => {
            traverse!(a.difference(&b), 2, a, b, ma, mb, S, true);
        }
        _ => {
            traverse!(a.symmetric_difference(&b), 3, a, b, ma, mb, S, false);
        }
    }
    assert!(same_elems(&elems(&a), &ma) && same_elems(&elems(&b), &mb), "C08: the operands are left unchanged");
    kani::cover!(true, "reached");
}

/// fold gives the same result as stepping with next: same items in the same order
pub fn h_setop_fold<const N: usize, const M: usize, const S: usize>(which: u8, la: usize, lb: usize) {
    assert!(S == N + M && S <= 6);
    let a: Set<u8, N> = any_set_len(la);
    let b: Set<u8, M> = any_set_len(lb);
    let mut stepped: [u8; S] = [0; S];
    let mut folded: [u8; S] = [0; S];
    macro_rules! both {
        ($mk:expr) => {{
            let mut it = $mk;
            let mut ns = 0usize;
            macro_rules! st {
                () => {
                    if let Some(x) = it.next() {
                        if ns < S {
                            stepped[ns] = *x;
                        }
                        ns += 1;
                    }
                };
            }
            st!();
            if S >= 1 { st!(); }
            if S >= 2 { st!(); }
            if S >= 3 { st!(); }
            if S >= 4 { st!(); }
            if S >= 5 { st!(); }
            if S >= 6 { st!(); }
            let nf = $mk.fold(0usize, |acc, x| {
                if acc < S {
                    folded[acc] = *x;
                }
                acc + 1
            });
            (ns, nf)
        }};
    }
    let (ns, nf) = match which {
        0 => both!(a.union(&b)),
        1 => both!(a.intersection(&b)),
        2 => both!(a.difference(&b)),
        _ => both!(a.symmetric_difference(&b)),
    };
    assert!(nf == ns && ns <= S, "C08: fold visits as many items as stepping with next");
    let mut i = 0;
    while i < S {
        if i < ns {
            assert!(stepped[i] == folded[i], "C08: fold gives the same items in the same order as next");
        }
        i += 1;
    }
    kani::cover!(true, "reached");
}

/// is_subset / is_superset / is_disjoint: the mathematical truth values
pub fn h_set_pred<const N: usize, const M: usize>() {
    let a: Set<u8, N> = any_set();
    let b: Set<u8, M> = any_set();
    let (ma, mb) = (elems(&a), elems(&b));
    let mut sub = true;
    let mut disj = true;
    let mut i = 0;
    while i < N {
        if i < ma.len {
            if member(&mb, ma.e[i]) {
                disj = false;
            } else {
                sub = false;
            }
        }
        i += 1;
    }
    let mut sup = true;
    let mut j = 0;
    while j < M {
        if j < mb.len && !member(&ma, mb.e[j]) {
            sup = false;
        }
        j += 1;
    }
    assert!(a.is_subset(&b) == sub, "C08.is_subset: the mathematical truth value");
    assert!(a.is_superset(&b) == sup, "C08.is_superset: the mathematical truth value");
    assert!(a.is_disjoint(&b) == disj, "C08.is_disjoint: the mathematical truth value");
    assert!(b.is_disjoint(&a) == disj, "C08.is_disjoint: symmetric");
    assert!(same_elems(&elems(&a), &ma) && same_elems(&elems(&b), &mb), "C08: the operands are left unchanged");
    kani::cover!(sub && ma.len > 0 || N == 0 || M == 0, "reached");
}

/// the `-` operator
pub fn h_set_sub<const N: usize, const M: usize>() {
    let a: Set<u8, N> = any_set();
    let b: Set<u8, M> = any_set();
    let (ma, mb) = (elems(&a), elems(&b));
    let r: Set<u8, N> = &a - &b;
    let mr = elems(&r);
    let q: u8 = kani::any();
    assert!(member(&mr, q) == (member(&ma, q) && !member(&mb, q)), "C08.sub: the result is exactly the mathematical difference");
    assert!(smodel(&r).wf() && r.capacity() == N && mr.len == result_size(2, &ma, &mb), "C08.sub: well-formed, capacity of the left operand, no repeats");
    assert!(same_elems(&elems(&a), &ma) && same_elems(&elems(&b), &mb), "C08: the operands are left unchanged");
    kani::cover!(mr.len > 0 || N == 0, "reached");
}

/// difference_ref on sets of references
pub fn h_difference_ref<const N: usize, const M: usize>() {
    let vals: [u8; 4] = kani::any();
    let pa: [u8; N] = kani::any();
    let pb: [u8; M] = kani::any();
    let mut a: Set<&u8, N> = Set::new();
    let mut b: Set<&u8, M> = Set::new();
    let mut i = 0;
    while i < N {
        kani::assume(pa[i] < 4);
        a.insert(&vals[pa[i] as usize]);
        i += 1;
    }
    let mut j = 0;
    while j < M {
        kani::assume(pb[j] < 4);
        b.insert(&vals[pb[j] as usize]);
        j += 1;
    }
    let (la, lb) = (a.len(), b.len());
    // mathematical result: elements of a whose value is not in b
    let mut total = 0;
    for x in a.iter() {
        if !b.contains(*x) {
            total += 1;
        }
    }
    let mut it = a.difference_ref(&b);
    let mut out: [u8; N] = [0; N];
    let mut n = 0;
    let mut step = 0;
    while step < N + 2 {
        let (lo, hi) = it.size_hint();
        assert!(lo <= total - n && (hi.is_none() || total - n <= hi.unwrap()), "C08.difference_ref: size_hint brackets what is still to come");
        match it.next() {
            Some(x) => {
                assert!(n < total, "C08.difference_ref: yields no more than the mathematical result");
                assert!(a.contains(x) && !b.contains(x), "C08.difference_ref: every item is in the left and not in the right operand");
                let mut k = 0;
                while k < N {
                    if k < n {
                        assert!(out[k] != *x, "C08.difference_ref: no element is yielded twice");
                    }
                    k += 1;
                }
                out[n] = *x;
                n += 1;
            }
            None => assert!(n == total, "C08.difference_ref: ends only after the whole result was yielded"),
        }
        step += 1;
    }
    assert!(a.len() == la && b.len() == lb, "C08: the operands are left unchanged");
    kani::cover!(n > 0 || N == 0, "reached");
}
