//! C01 - Map agrees with the ideal bounded dictionary.
//! One harness per public operation, of the fixed shape
//!   arbitrary well-formed pre-state ; call the real function ; assert the contract.
//! The contract of every mutating operation is stated over the whole view: result,
//! `len`, `wf` and - for a symbolic probe key `q` ranging over all keys - the
//! binding of `q` afterwards.

use super::spec::*;
use crate::Map;
use core::borrow::Borrow;

// ---------------------------------------------------------------- lookups

pub fn h_get<K: Shape + Borrow<u8>, V: Shape, const N: usize>() {
    let m: Map<K, V, N> = any_map();
    let pre = model(&m);
    let k: K = kani::any();
    let exp = pre.get(&k);
    {
        let r = m.get::<K>(&k);
        assert!(same_opt(&r.copied(), &exp.map(|p| p.1)), "C01.get: result equals the model lookup");
        if let Some(v) = r {
            assert!(inside(v, &m), "C06.get: reference points inside the map");
        }
        let rb = m.get::<u8>(k.borrow());
        assert!(same_opt(&rb.copied(), &exp.map(|p| p.1)), "C01.get: borrowed-form lookup equals lookup by key");
    }
    assert!(m.contains_key::<K>(&k) == exp.is_some(), "C01.contains_key: equals model membership");
    assert!(m.contains_key::<u8>(k.borrow()) == exp.is_some(), "C01.contains_key: borrowed form");
    {
        let r = m.get_key_value::<K>(&k);
        assert!(same_opt_pair(&r.map(|(a, b)| (*a, *b)), &exp), "C01.get_key_value: returns the stored key and value");
        let rb = m.get_key_value::<u8>(k.borrow());
        assert!(same_opt_pair(&rb.map(|(a, b)| (*a, *b)), &exp), "C01.get_key_value: borrowed form");
        if let Some((a, b)) = r {
            assert!(inside(a, &m) && inside(b, &m), "C06.get_key_value: references point inside the map");
        }
    }
    assert!(model(&m).same(&pre), "C01.get: lookups leave the map unchanged");
    kani::cover!(exp.is_some() || N == 0, "reached");
}

pub fn h_get_mut<K: Shape + Borrow<u8>, V: Shape, const N: usize>() {
    let mut m: Map<K, V, N> = any_map();
    let pre = model(&m);
    let k: K = kani::any();
    let w: V = kani::any();
    let by_borrow: bool = kani::any();
    let exp = pre.get(&k);
    let base = &m as *const Map<K, V, N> as usize;
    {
        let r = if by_borrow { m.get_mut::<u8>(k.borrow()) } else { m.get_mut::<K>(&k) };
        assert!(same_opt(&r.as_deref().copied(), &exp.map(|p| p.1)), "C01.get_mut: result equals the model lookup");
        if let Some(v) = r {
            let p = v as *const V as usize;
            assert!(p >= base && p + core::mem::size_of::<V>() <= base + core::mem::size_of::<Map<K, V, N>>(),
                "C06.get_mut: reference points inside the map");
            *v = w;
        }
    }
    let post = model(&m);
    let q: K = kani::any();
    let e = if q == k && exp.is_some() { Some((exp.unwrap().0, w)) } else { pre.get(&q) };
    assert!(same_opt_pair(&post.get(&q), &e), "C01.get_mut: a write through the reference changes that value only");
    assert!(post.len == pre.len && post.wf(), "C05.get_mut: len and key uniqueness preserved");
    kani::cover!(exp.is_some() || N == 0, "reached");
}

pub fn h_index<K: Shape + Borrow<u8>, V: Shape, const N: usize>() {
    let mut m: Map<K, V, N> = any_map();
    let pre = model(&m);
    let k: K = kani::any();
    kani::assume(pre.contains(&k));
    let exp = pre.get(&k).unwrap();
    assert!(m[k.borrow()].same(&exp.1), "C01.index: present key yields its value without panicking");
    assert!(inside(&m[k.borrow()], &m), "C06.index: reference points inside the map");
    let w: V = kani::any();
    m[k.borrow()] = w;
    let post = model(&m);
    let q: K = kani::any();
    let e = if q == k { Some((exp.0, w)) } else { pre.get(&q) };
    assert!(same_opt_pair(&post.get(&q), &e), "C01.index_mut: assignment changes that value only");
    assert!(post.len == pre.len && post.wf(), "C05.index_mut: len and key uniqueness preserved");
    kani::cover!(true, "reached");
}

/// expected-panic unit: indexing an absent key must not return
pub fn h_index_absent<K: Shape + Borrow<u8>, V: Shape, const N: usize>() {
    let m: Map<K, V, N> = any_map();
    let k: K = kani::any();
    kani::assume(!model(&m).contains(&k));
    kani::cover!(true, "reached");
    let v = m[k.borrow()];
    assert!(false, "C01.index: indexing an absent key returned instead of panicking");
}

pub fn h_index_mut_absent<K: Shape + Borrow<u8>, V: Shape, const N: usize>() {
    let mut m: Map<K, V, N> = any_map();
    let k: K = kani::any();
    kani::assume(!model(&m).contains(&k));
    kani::cover!(true, "reached");
    m[k.borrow()] = kani::any();
    assert!(false, "C01.index_mut: indexing an absent key returned instead of panicking");
}

// ---------------------------------------------------------------- insertion

/// which: 0 insert, 1 insert_key_value, 2 checked_insert, 3 insert_unchecked
pub fn h_insert<K: Shape, V: Shape, const N: usize>(which: u8) {
    let mut m: Map<K, V, N> = any_map();
    let pre = model(&m);
    let k: K = kani::any();
    let v: V = kani::any();
    let old = pre.get(&k);
    let full = pre.len == N;
    if which != 2 {
        // a new key needs a free slot (the full case is C03)
        kani::assume(old.is_some() || !full);
    }
    let rejected = which == 2 && full && old.is_none();
    let stored_key = if which == 1 { k } else { old.map(|p| p.0).unwrap_or(k) };
    match which {
        0 => {
            let r = m.insert(k, v);
            assert!(same_opt(&r, &old.map(|p| p.1)), "C01.insert: returns the previous value of the key");
        }
        1 => {
            let r = m.insert_key_value(k, v);
            assert!(same_opt_pair(&r, &old), "C01.insert_key_value: returns the previously stored key and value");
        }
        2 => {
            let r = m.checked_insert(k, v);
            if rejected {
                assert!(r.is_none(), "C03.checked_insert: full map and absent key gives None");
            } else {
                assert!(r.is_some(), "C01.checked_insert: Some(..) when the key is present or there is room");
                assert!(same_opt(&r.unwrap(), &old.map(|p| p.1)), "C01.checked_insert: returns the previous value");
            }
        }
        _ => {
            let r = unsafe { m.insert_unchecked(k, v) };
            assert!(same_opt(&r, &old.map(|p| p.1)), "C18.insert_unchecked: returns what insert returns");
        }
    }
    let post = model(&m);
    if rejected {
        assert!(post.same(&pre), "C03.checked_insert: a rejected insertion changes nothing");
    } else {
        let q: K = kani::any();
        let e = if q == k { Some((stored_key, v)) } else { pre.get(&q) };
        assert!(same_opt_pair(&post.get(&q), &e),
            "C01.insert: afterwards the key maps to the new value (stored key per C12) and every other key is unchanged");
        assert!(post.len == pre.len + (if old.is_none() { 1 } else { 0 }), "C01.insert: len grows by one exactly when the key was absent");
    }
    assert!(post.wf(), "C05.insert: len <= capacity and keys pairwise different");
    assert!(m.len() == post.len && m.capacity() == N && (m.is_empty() == (post.len == 0)), "C05.insert: len/capacity/is_empty agree");
    kani::cover!(old.is_some() || N == 0, "reached");
    kani::cover!(old.is_none(), "reached absent");
}

// ---------------------------------------------------------------- removal

/// which: 0 remove, 1 remove_entry, 2 remove by borrowed form, 3 remove_entry by borrowed form
pub fn h_remove<K: Shape + Borrow<u8>, V: Shape, const N: usize>(which: u8) {
    let mut m: Map<K, V, N> = any_map();
    let pre = model(&m);
    let k: K = kani::any();
    let old = pre.get(&k);
    match which {
        0 => {
            let r = m.remove::<K>(&k);
            assert!(same_opt(&r, &old.map(|p| p.1)), "C01.remove: returns the value that was bound to the key");
        }
        1 => {
            let r = m.remove_entry::<K>(&k);
            assert!(same_opt_pair(&r, &old), "C01.remove_entry: returns the stored key and its value");
        }
        2 => {
            let r = m.remove::<u8>(k.borrow());
            assert!(same_opt(&r, &old.map(|p| p.1)), "C01.remove: borrowed form removes like the key itself");
        }
        _ => {
            let r = m.remove_entry::<u8>(k.borrow());
            assert!(same_opt_pair(&r, &old), "C01.remove_entry: borrowed form");
        }
    }
    let post = model(&m);
    let q: K = kani::any();
    let e = if q == k { None } else { pre.get(&q) };
    assert!(same_opt_pair(&post.get(&q), &e), "C01.remove: the key is gone and every other key keeps its binding");
    assert!(post.len == pre.len - (if old.is_some() { 1 } else { 0 }), "C01.remove: len shrinks by one exactly when the key was present");
    assert!(post.wf(), "C05.remove: len <= capacity and keys pairwise different");
    kani::cover!(old.is_some() || N == 0, "reached");
}

// ---------------------------------------------------------------- retain / clear

pub struct Rec<K, V, const N: usize> {
    pub calls: usize,
    pub keys: [Option<K>; N],
    pub seen: [Option<V>; N],
    pub keep: [bool; N],
    pub newv: [V; N],
    pub overflow: bool,
}

pub fn h_retain<K: Shape, V: Shape, const N: usize>() {
    let mut m: Map<K, V, N> = any_map();
    let pre = model(&m);
    let mut rec: Rec<K, V, N> = Rec {
        calls: 0,
        keys: [None; N],
        seen: [None; N],
        keep: kani::any(),
        newv: kani::any(),
        overflow: false,
    };
    m.retain(|k, v| {
        let j = rec.calls;
        rec.calls += 1;
        if j < N {
            rec.keys[j] = Some(*k);
            rec.seen[j] = Some(*v);
            *v = rec.newv[j];
            rec.keep[j]
        } else {
            rec.overflow = true;
            false
        }
    });
    let post = model(&m);
    assert!(!rec.overflow && rec.calls == pre.len, "C01.retain: the predicate runs exactly once per entry");
    // every old entry was shown exactly once, with its own value
    let mut i = 0;
    let mut kept = 0;
    while i < N {
        if i < pre.len {
            let (pk, pv) = pre.slot(i);
            let mut shown = 0;
            let mut j = 0;
            while j < N {
                if j < rec.calls {
                    if rec.keys[j].unwrap().same(&pk) && rec.seen[j].unwrap().same(&pv) {
                        shown += 1;
                    }
                }
                j += 1;
            }
            assert!(shown == 1, "C01.retain: each entry is shown to the predicate exactly once");
        }
        if i < rec.calls && rec.keep[i] {
            kept += 1;
        }
        i += 1;
    }
    assert!(post.len == kept, "C01.retain: len equals the number of entries the predicate kept");
    assert!(post.wf(), "C05.retain: keys pairwise different afterwards");
    // probe: q is bound afterwards iff it was shown and kept, to the value the predicate wrote
    let q: K = kani::any();
    let mut e: Option<(K, V)> = None;
    let mut j = 0;
    while j < N {
        if j < rec.calls {
            let kk = rec.keys[j].unwrap();
            if kk == q && rec.keep[j] {
                e = Some((kk, rec.newv[j]));
            }
        }
        j += 1;
    }
    assert!(same_opt_pair(&post.get(&q), &e), "C01.retain: exactly the kept entries remain, with the values the predicate left");
    kani::cover!(post.len < pre.len || N == 0, "reached");
}

pub fn h_clear<K: Shape, V: Shape, const N: usize>() {
    let mut m: Map<K, V, N> = any_map();
    m.clear();
    assert!(m.len() == 0 && m.is_empty(), "C01.clear: the map is empty afterwards");
    let q: K = kani::any();
    assert!(m.get(&q).is_none() && model(&m).get(&q).is_none(), "C01.clear: no key is bound afterwards");
    assert!(m.iter().next().is_none(), "C01.clear: iteration yields nothing afterwards");
    kani::cover!(true, "reached");
}

pub fn h_drain_view<K: Shape, V: Shape, const N: usize>() {
    let mut m: Map<K, V, N> = any_map();
    let pre = model(&m);
    let take: usize = kani::any();
    kani::assume(take <= N);
    {
        let mut d = m.drain();
        let mut i = 0;
        while i < N {
            if i < take {
                let it = d.next();
                if i < pre.len {
                    // which entry comes when is C10's business (order-agnostic there)
                    assert!(it.is_some() && pre.count(&it.unwrap().0) == 1, "C01.drain: yields stored entries");
                } else {
                    assert!(it.is_none(), "C01.drain: yields nothing beyond the stored entries");
                }
            }
            i += 1;
        }
    }
    assert!(m.len() == 0 && m.is_empty(), "C01.drain: the map is empty after the drain is dropped");
    let q: K = kani::any();
    assert!(m.get(&q).is_none(), "C01.drain: no key is bound afterwards");
    // and it is reusable
    if N > 0 {
        let v: V = kani::any();
        assert!(m.insert(q, v).is_none() && m.len() == 1, "C10.drain: the map is reusable afterwards");
        assert!(same_opt(&m.get(&q).copied(), &Some(v)), "C10.drain: insert after drain behaves normally");
    }
    kani::cover!(take > 0 || N == 0, "reached");
}

/// Lookups with a key *reference taken from the map itself* (iter/keys), for a key
/// type whose `==` is not reflexive: the answer must still be the model's (pure `==`).
pub fn h_lookup_selfref<const N: usize>() {
    let m: Map<Nr, u8, N> = any_map();
    let pre = model(&m);
    let i: usize = kani::any();
    kani::assume(i < pre.len);
    let via_keys: bool = kani::any();
    let kref: &Nr = if via_keys { m.keys().nth(i).unwrap() } else { m.iter().nth(i).unwrap().0 };
    let exp = pre.get(kref);
    assert!(m.contains_key(kref) == exp.is_some(), "C01.contains_key: equals model membership, also for a key reference taken from the map itself");
    assert!(same_opt(&m.get(kref).copied(), &exp.map(|p| p.1)), "C01.get: equals the model lookup, also for a key reference taken from the map itself");
    assert!(same_opt_pair(&m.get_key_value(kref).map(|(a, b)| (*a, *b)), &exp), "C01.get_key_value: equals the model lookup for a key reference taken from the map itself");
    kani::cover!(exp.is_none() && pre.len > 0, "reached");
}

pub fn h_set_selfref<const N: usize>() {
    let s: crate::Set<Nr, N> = any_set();
    let pre = smodel(&s);
    let i: usize = kani::any();
    kani::assume(i < pre.len);
    let r: &Nr = s.iter().nth(i).unwrap();
    let exp = pre.get(r);
    assert!(s.contains(r) == exp.is_some(), "C07.contains: equals model membership for a reference taken from the set itself");
    assert!(same_opt(&s.get(r).copied(), &exp.map(|p| p.0)), "C07.get: equals the model lookup for a reference taken from the set itself");
    kani::cover!(exp.is_none() && pre.len > 0, "reached");
}
