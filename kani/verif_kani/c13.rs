//! C13 - get_disjoint_mut agrees with get_mut and never hands out aliasing
//! references; C18 - get_disjoint_unchecked_mut under its documented precondition.
//! Core's large-slice sort path (`ipnsort`) is cut by a stub that asserts it is
//! unreachable: reaching it fails the proof (a cut, not an assumption).

use super::spec::*;
use crate::Map;

pub fn ipnsort_unreachable<T, F: FnMut(&T, &T) -> bool>(_v: &mut [T], _is_less: &mut F) {
    assert!(false, "cut: core's large-slice sort path (ipnsort) was reached");
}

fn value_addr<K, V, const N: usize>(m: &Map<K, V, N>, pos: usize) -> usize {
    unsafe { &(*(m.pairs.as_ptr() as *const (K, V)).add(pos)).1 as *const V as usize }
}

/// unchecked: false = get_disjoint_mut, true = get_disjoint_unchecked_mut
pub fn h_disjoint<K: Shape + Eq, const N: usize, const J: usize>(unchecked: bool) {
    let mut m: Map<K, u8, N> = any_map();
    let pre = model(&m);
    let keys: [K; J] = kani::any();
    let w: [u8; J] = kani::any();
    // pairwise different keys
    let mut i = 0;
    while i < J {
        let mut j = i + 1;
        while j < J {
            kani::assume(!(keys[i] == keys[j]));
            j += 1;
        }
        i += 1;
    }
    let mut exp_addr: [usize; J] = [0; J];
    let mut p = 0;
    while p < J {
        if let Some(pos) = pre.pos(&keys[p]) {
            exp_addr[p] = value_addr(&m, pos);
        }
        p += 1;
    }
    let mut ks: [&K; J] = [&keys[0]; J];
    let mut p = 0;
    while p < J {
        ks[p] = &keys[p];
        p += 1;
    }
    let mut got_addr: [usize; J] = [0; J];
    {
        let r = if unchecked { unsafe { m.get_disjoint_unchecked_mut(ks) } } else { m.get_disjoint_mut(ks) };
        let mut p = 0;
        for o in r {
            let e = pre.get(&keys[p]);
            match o {
                Some(v) => {
                    assert!(e.is_some() && *v == e.unwrap().1, "C13: each position holds exactly what get_mut returns for that key (value)");
                    got_addr[p] = v as *const u8 as usize;
                    *v = w[p];
                }
                None => assert!(e.is_none(), "C13: None exactly for missing keys"),
            }
            p += 1;
        }
    }
    let mut p = 0;
    while p < J {
        assert!(got_addr[p] == exp_addr[p], "C13: each reference is the one get_mut returns for that key (address)");
        let mut q = p + 1;
        while q < J {
            assert!(got_addr[p] == 0 || got_addr[p] != got_addr[q], "C13: the returned mutable references never alias");
            q += 1;
        }
        p += 1;
    }
    // writes through the references land on exactly those keys
    let post = model(&m);
    let q: K = kani::any();
    let mut e = pre.get(&q);
    let mut p = 0;
    while p < J {
        if keys[p] == q {
            if let Some(x) = e {
                e = Some((x.0, w[p]));
            }
        }
        p += 1;
    }
    assert!(same_opt_pair(&post.get(&q), &e), "C13: writes through the references change exactly the requested values");
    assert!(post.len == pre.len && post.wf(), "C13: len and keys untouched");
    kani::cover!(true, "reached");
}

pub fn h_disjoint_empty<const N: usize>() {
    let mut m: Map<u8, u8, N> = any_map();
    let r: [Option<&mut u8>; 0] = m.get_disjoint_mut::<u8, 0>([]);
    assert!(r.len() == 0, "C13: zero keys give an empty array");
    kani::cover!(true, "reached");
}

/// two equal keys that are present: must panic instead of returning two references
pub fn h_disjoint_overlap<const N: usize, const J: usize>() {
    let mut m: Map<u8, u8, N> = any_map();
    let pre = model(&m);
    let keys: [u8; J] = kani::any();
    let a: usize = kani::any();
    let b: usize = kani::any();
    kani::assume(a < b && b < J && keys[a] == keys[b] && pre.contains(&keys[a]));
    let mut ks: [&u8; J] = [&keys[0]; J];
    let mut p = 0;
    while p < J {
        ks[p] = &keys[p];
        p += 1;
    }
    kani::cover!(true, "reached");
    let r = m.get_disjoint_mut(ks);
    assert!(false, "C13: two equal present keys returned instead of panicking");
}
