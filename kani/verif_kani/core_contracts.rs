//! Spec helpers used inside Kani function-contract attributes that are injected
//! on the real (generic) functions.  They must be generic with only the bounds of
//! the impl block they are used in.

use crate::Map;

/// the map is full and no stored key equals `k`
pub fn full_and_absent<K: PartialEq, V, const N: usize>(m: &Map<K, V, N>, k: &K) -> bool {
    if m.len != N {
        return false;
    }
    let mut absent = true;
    let mut i = 0;
    while i < N {
        if unsafe { m.pairs[i].assume_init_ref() }.0 == *k {
            absent = false;
        }
        i += 1;
    }
    absent
}

pub fn len_le_cap<K, V, const N: usize>(m: &Map<K, V, N>) -> bool {
    m.len <= N
}

// ---------------------------------------------------------------- proof harnesses

use super::spec::*;

/// On a full map with an absent key `insert_ii` may not write anything before it
/// panics (frame: `modifies` nothing): the state at the panic is the entry state.
pub fn h_insert_ii_full_frame<K: Shape, V: Shape, const N: usize>(update_key: bool) {
    let mut m: Map<K, V, N> = any_map();
    let k: K = kani::any();
    let v: V = kani::any();
    kani::cover!(full_and_absent(&m, &k), "reached");
    m.insert_ii(k, v, update_key);
}

pub fn h_vacant_insert_full_frame<K: Shape, V: Shape, const N: usize>() {
    let mut m: Map<K, V, N> = any_map();
    let k: K = kani::any();
    let v: V = kani::any();
    kani::cover!(full_and_absent(&m, &k), "reached");
    if let crate::Entry::Vacant(e) = m.entry(k) {
        e.insert(v);
    }
}

// ---------------------------------------------------------------- bitwise snapshots
// Contract expressions are type-checked in the generic context of the real impl
// block (no bounds on K, V), so the vocabulary is bytes: swap-remove and insert
// *move* elements, hence "slot j afterwards is bit-identical to slot j' before" is
// the strongest statement of what they do.

pub const MAXB: usize = 8;

#[derive(Clone, Copy)]
pub struct Snap {
    pub len: usize,
    pub bytes: [u8; MAXB],
    pub esz: usize,
}

pub fn snap<K, V, const N: usize>(m: &Map<K, V, N>) -> Snap {
    let esz = core::mem::size_of::<(K, V)>();
    let total = esz * N;
    assert!(total <= MAXB, "harness: snapshot buffer too small");
    let mut bytes = [0u8; MAXB];
    let src = m.pairs.as_ptr() as *const u8;
    let mut i = 0;
    while i < MAXB {
        if i < total {
            bytes[i] = unsafe { *src.add(i) };
        }
        i += 1;
    }
    Snap { len: m.len, bytes, esz }
}

/// slot `a` of snapshot `x` has the same bytes as slot `b` of snapshot `y`
pub fn slot_eq(x: &Snap, a: usize, y: &Snap, b: usize) -> bool {
    let mut ok = x.esz == y.esz;
    let mut i = 0;
    while i < MAXB {
        if i < x.esz && x.bytes[a * x.esz + i] != y.bytes[b * y.esz + i] {
            ok = false;
        }
        i += 1;
    }
    ok
}

pub fn val_eq_slot<T>(v: &T, x: &Snap, a: usize) -> bool {
    let p = v as *const T as *const u8;
    let mut ok = core::mem::size_of::<T>() == x.esz;
    let mut i = 0;
    while i < MAXB {
        if i < x.esz && unsafe { *p.add(i) } != x.bytes[a * x.esz + i] {
            ok = false;
        }
        i += 1;
    }
    ok
}

/// swap-remove post-condition in bytes
pub fn post_swap_remove<K, V, const N: usize>(old: &Snap, m: &Map<K, V, N>, i: usize, r: &(K, V)) -> bool {
    let new = snap(m);
    let mut ok = new.len + 1 == old.len && val_eq_slot(r, old, i);
    if i != new.len && !slot_eq(&new, i, old, old.len - 1) {
        ok = false;
    }
    let mut j = 0;
    while j < N {
        if j < new.len && j != i && !slot_eq(&new, j, old, j) {
            ok = false;
        }
        j += 1;
    }
    ok
}

/// nothing but slot `i` differs between the snapshots (and len is the same)
pub fn only_slot_changed<K, V, const N: usize>(old: &Snap, m: &Map<K, V, N>, i: usize) -> bool {
    let new = snap(m);
    let mut ok = new.len == old.len;
    let mut j = 0;
    while j < N {
        if j != i && !slot_eq(&new, j, old, j) {
            ok = false;
        }
        j += 1;
    }
    ok
}

pub fn slot_is<K, V, const N: usize>(m: &Map<K, V, N>, i: usize, val: &Snap) -> bool {
    slot_eq(&snap(m), i, val, 0)
}

pub fn snap_val<T>(v: &T) -> Snap {
    let esz = core::mem::size_of::<T>();
    assert!(esz <= MAXB);
    let mut bytes = [0u8; MAXB];
    let p = v as *const T as *const u8;
    let mut i = 0;
    while i < MAXB {
        if i < esz {
            bytes[i] = unsafe { *p.add(i) };
        }
        i += 1;
    }
    Snap { len: 0, bytes, esz }
}

pub fn slot_addr<K, V, const N: usize>(m: &Map<K, V, N>, i: usize) -> usize {
    unsafe { (m.pairs.as_ptr() as *const (K, V)).add(i) as usize }
}

/// needed by `stub_verified`: the havocked `self` of a contract with `modifies(self)`
impl<K: kani::Arbitrary, V: kani::Arbitrary, const N: usize> kani::Arbitrary for Map<K, V, N> {
    fn any() -> Self {
        let mut m: Map<K, V, N> = Map::new();
        let len: usize = kani::any();
        kani::assume(len <= N);
        let mut i = 0;
        while i < N {
            m.pairs[i] = core::mem::MaybeUninit::new((kani::any(), kani::any()));
            i += 1;
        }
        m.len = len;
        m
    }
}

// ---------------------------------------------------------------- contract proof harnesses

/// which: 0 item_read 1 item_write 2 item_drop 3 item_ref 4 item_mut 5 value_mut
pub fn h_accessor<const N: usize>(which: u8) {
    let mut m: Map<u8, u8, N> = any_map_weak_raw();
    let i: usize = kani::any();
    kani::cover!(i < N, "reached");
    match which {
        0 => {
            let _ = unsafe { m.item_read(i) };
        }
        1 => unsafe { m.item_write(i, (kani::any(), kani::any())) },
        2 => unsafe { m.item_drop(i) },
        3 => {
            let _ = unsafe { m.item_ref(i) };
        }
        4 => {
            let _ = unsafe { m.item_mut(i) };
        }
        _ => {
            let _ = unsafe { m.value_mut(i) };
        }
    }
    // `Map::drop` calls item_drop itself; Kani allows only one top-level call of the
    // function whose contract is being checked
    core::mem::forget(m);
}

fn any_map_weak_raw<K: kani::Arbitrary, V: kani::Arbitrary, const N: usize>() -> Map<K, V, N> {
    kani::any()
}

pub fn h_remove_index_read<const N: usize>() {
    let mut m: Map<u8, u8, N> = any_map_weak_raw();
    let i: usize = kani::any();
    kani::cover!(i < m.len, "reached");
    let _ = unsafe { m.remove_index_read(i) };
}

// ---------------------------------------------------------------- the contract Verus ASSUMES for the insertion cores
/// `insert_post` of verus/prelude.rs, at slot level, on the real bodies of `insert_ii` (which = 0) and
/// `insert_ii_for_full` (which = 1), from a `wf_weak` state (duplicate keys allowed, as in the Verus contract):
/// the slot chosen is the FIRST one whose key equals `k`, else the old `len`; exactly that slot changes;
/// what it holds and what is handed back follow `update_key`; `len` grows only on append.
pub fn h_insert_core_post<K: Shape, V: Shape, const N: usize>(which: u8) {
    let mut m: Map<K, V, N> = any_map_weak();
    let pre = model(&m);
    let k: K = kani::any();
    let v: V = kani::any();
    let upd: bool = kani::any();
    let mut first = pre.len;
    let mut j = 0;
    while j < N {
        if j < pre.len && first == pre.len && pre.slot(j).0 == k {
            first = j;
        }
        j += 1;
    }
    let (i, d) = if which == 0 {
        // otherwise the call is the container's own panic (decided by the C03 units)
        kani::assume(pre.len < N || first < pre.len);
        m.insert_ii(k, v, upd)
    } else {
        match m.insert_ii_for_full(k, v, upd) {
            Some((i, old)) => (i, Some(old)),
            None => {
                assert!(first == pre.len && model(&m).same(&pre), "insert_post(for_full): None exactly when no stored key equals k, and then nothing changes");
                kani::cover!(true, "reached");
                return;
            }
        }
    };
    let post = model(&m);
    assert!(i == first, "insert_post: the slot chosen is the first one whose key equals k, else the old len");
    if first < pre.len {
        let old = pre.slot(i);
        assert!(post.len == pre.len, "insert_post: a present key does not change len");
        if upd {
            assert!(same_pair(&post.slot(i), &(k, v)) && same_opt_pair(&d, &Some(old)), "insert_post(update_key): the supplied pair is stored, the old pair handed back");
        } else {
            assert!(same_pair(&post.slot(i), &(old.0, v)) && same_opt_pair(&d, &Some((k, old.1))), "insert_post(keep key): the stored key object stays, the supplied key and the old value are handed back");
        }
    } else {
        assert!(which == 0 && post.len == pre.len + 1 && same_pair(&post.slot(i), &(k, v)) && d.is_none(), "insert_post: an absent key is appended at the old len");
    }
    let mut j = 0;
    while j < N {
        if j < pre.len && j != i {
            assert!(same_pair(&post.slot(j), &pre.slot(j)), "insert_post: every other slot is untouched");
        }
        j += 1;
    }
    kani::cover!(first < pre.len, "reached");
}
