//! Spec helpers used inside Kani function-contract attributes that are injected
//! on the real (generic) functions.  They must be generic with only the bounds of
//! the impl block they are used in.

use crate::Map;

/// the map is full and no stored key equals `k`
pub fn full_and_absent<K: PartialEq, V, const N: usize>(m: &Map<K, V, N>, k: &K) -> bool {
    if m.len != N {
        return false;
    }
    let mut absent = true;
    let mut i = 0;
    while i < N {
        if unsafe { m.pairs[i].assume_init_ref() }.0 == *k {
            absent = false;
        }
        i += 1;
    }
    absent
}

pub fn len_le_cap<K, V, const N: usize>(m: &Map<K, V, N>) -> bool {
    m.len <= N
}

// ---------------------------------------------------------------- proof harnesses

use super::spec::*;

/// On a full map with an absent key `insert_ii` may not write anything before it
/// panics (frame: `modifies` nothing): the state at the panic is the entry state.
pub fn h_insert_ii_full_frame<K: Shape, V: Shape, const N: usize>(update_key: bool) {
    let mut m: Map<K, V, N> = any_map();
    let k: K = kani::any();
    let v: V = kani::any();
    kani::cover!(full_and_absent(&m, &k), "reached");
    m.insert_ii(k, v, update_key);
}

pub fn h_vacant_insert_full_frame<K: Shape, V: Shape, const N: usize>() {
    let mut m: Map<K, V, N> = any_map();
    let k: K = kani::any();
    let v: V = kani::any();
    kani::cover!(full_and_absent(&m, &k), "reached");
    if let crate::Entry::Vacant(e) = m.entry(k) {
        e.insert(v);
    }
}
