//! placeholder
