//! C09 - borrowing iterators visit every entry exactly once with exact lengths.
//! The j-th item is the j-th live slot (hence: every entry once, nothing else, a
//! fixed order), len()/size_hint() are exact before every step, None after the end.

use super::spec::*;
use crate::{Map, Set};

/// which: 0 iter, 1 keys, 2 values, 3 (&map).into_iter()
pub fn h_iter<K: Shape, V: Shape, const N: usize>(which: u8) {
    let m: Map<K, V, N> = any_map();
    let pre = model(&m);
    let cut: usize = kani::any(); // where a clone is taken
    kani::assume(cut <= N);
    match which {
        0 | 3 => {
            let mut it = if which == 0 { m.iter() } else { (&m).into_iter() };
            let mut cl = it.clone();
            let mut i = 0;
            while i < N + 2 {
                let rem = pre.len - core::cmp::min(i, pre.len);
                assert!(it.len() == rem && it.size_hint() == (rem, Some(rem)), "C09.iter: len/size_hint are exact before every step");
                if i == cut {
                    cl = it.clone();
                    assert!(it.clone().count() == rem, "C09.iter: count() agrees");
                }
                let x = it.next();
                if i < pre.len {
                    let (k, v) = x.unwrap();
                    assert!(same_pair(&(*k, *v), &pre.slot(i)), "C09.iter: the i-th item is the i-th stored entry");
                    assert!(inside(k, &m) && inside(v, &m), "C06.iter: items point inside the map");
                } else {
                    assert!(x.is_none(), "C09.iter: None after the end, repeatedly");
                }
                i += 1;
            }
            // the clone continues identically from the cut
            let mut j = 0;
            while j < N + 1 {
                let x = cl.next();
                let idx = cut + j;
                if idx < pre.len {
                    let (k, v) = x.unwrap();
                    assert!(same_pair(&(*k, *v), &pre.slot(idx)), "C09.iter: a cloned iterator continues identically");
                } else {
                    assert!(x.is_none(), "C09.iter: a cloned iterator ends identically");
                }
                j += 1;
            }
        }
        1 => {
            let mut it = m.keys();
            let mut cl = it.clone();
            let mut i = 0;
            while i < N + 2 {
                let rem = pre.len - core::cmp::min(i, pre.len);
                assert!(it.len() == rem && it.size_hint() == (rem, Some(rem)), "C09.keys: len/size_hint are exact before every step");
                if i == cut {
                    cl = it.clone();
                    assert!(it.clone().count() == rem, "C09.keys: count() agrees");
                }
                let x = it.next();
                if i < pre.len {
                    assert!(x.unwrap().same(&pre.slot(i).0), "C09.keys: the i-th item is the i-th stored key");
                } else {
                    assert!(x.is_none(), "C09.keys: None after the end, repeatedly");
                }
                i += 1;
            }
            let mut j = 0;
            while j < N + 1 {
                let x = cl.next();
                let idx = cut + j;
                if idx < pre.len {
                    assert!(x.unwrap().same(&pre.slot(idx).0), "C09.keys: a cloned iterator continues identically");
                } else {
                    assert!(x.is_none(), "C09.keys: a cloned iterator ends identically");
                }
                j += 1;
            }
        }
        _ => {
            let mut it = m.values();
            let mut cl = it.clone();
            let mut i = 0;
            while i < N + 2 {
                let rem = pre.len - core::cmp::min(i, pre.len);
                assert!(it.len() == rem && it.size_hint() == (rem, Some(rem)), "C09.values: len/size_hint are exact before every step");
                if i == cut {
                    cl = it.clone();
                    assert!(it.clone().count() == rem, "C09.values: count() agrees");
                }
                let x = it.next();
                if i < pre.len {
                    assert!(x.unwrap().same(&pre.slot(i).1), "C09.values: the i-th item is the i-th stored value");
                } else {
                    assert!(x.is_none(), "C09.values: None after the end, repeatedly");
                }
                i += 1;
            }
            let mut j = 0;
            while j < N + 1 {
                let x = cl.next();
                let idx = cut + j;
                if idx < pre.len {
                    assert!(x.unwrap().same(&pre.slot(idx).1), "C09.values: a cloned iterator continues identically");
                } else {
                    assert!(x.is_none(), "C09.values: a cloned iterator ends identically");
                }
                j += 1;
            }
        }
    }
    assert!(model(&m).same(&pre), "C09: iteration leaves the map unchanged (a second traversal yields the same order)");
    kani::cover!(pre.len > 0 || N == 0, "reached");
}

/// which: 0 iter_mut, 1 values_mut, 2 (&mut map).into_iter()
pub fn h_iter_mut<K: Shape, V: Shape, const N: usize>(which: u8) {
    let mut m: Map<K, V, N> = any_map();
    let pre = model(&m);
    let newv: [V; N] = kani::any();
    let stop: usize = kani::any(); // writes happen for the first `stop` items only
    kani::assume(stop <= N);
    if which == 1 {
        let mut it = m.values_mut();
        let mut i = 0;
        while i < N + 2 {
            let rem = pre.len - core::cmp::min(i, pre.len);
            assert!(it.len() == rem && it.size_hint() == (rem, Some(rem)), "C09.values_mut: len/size_hint are exact before every step");
            let x = it.next();
            if i < pre.len {
                let v = x.unwrap();
                assert!(v.same(&pre.slot(i).1), "C09.values_mut: the i-th item is the i-th stored value");
                if i < stop {
                    *v = newv[i];
                }
            } else {
                assert!(x.is_none(), "C09.values_mut: None after the end, repeatedly");
            }
            i += 1;
        }
    } else {
        let mut it = if which == 0 { m.iter_mut() } else { (&mut m).into_iter() };
        let mut i = 0;
        while i < N + 2 {
            let rem = pre.len - core::cmp::min(i, pre.len);
            assert!(it.len() == rem && it.size_hint() == (rem, Some(rem)), "C09.iter_mut: len/size_hint are exact before every step");
            let x = it.next();
            if i < pre.len {
                let (k, v) = x.unwrap();
                assert!(same_pair(&(*k, *v), &pre.slot(i)), "C09.iter_mut: the i-th item is the i-th stored entry");
                if i < stop {
                    *v = newv[i];
                }
            } else {
                assert!(x.is_none(), "C09.iter_mut: None after the end, repeatedly");
            }
            i += 1;
        }
    }
    let post = model(&m);
    assert!(post.len == pre.len && post.wf(), "C05.iter_mut: len and key uniqueness preserved");
    let q: K = kani::any();
    let e = match pre.pos(&q) {
        Some(p) => Some((pre.slot(p).0, if p < stop { newv[p] } else { pre.slot(p).1 })),
        None => None,
    };
    assert!(same_opt_pair(&post.get(&q), &e), "C09.iter_mut: writes through the iterator are exactly what lookups return afterwards");
    assert!(same_opt(&m.get(&q).copied(), &e.map(|p| p.1)), "C09.iter_mut: get() sees the written values");
    kani::cover!(pre.len > 0 || N == 0, "reached");
}

pub fn h_set_iter<T: Shape, const N: usize>() {
    let s: Set<T, N> = any_set();
    let pre = smodel(&s);
    let cut: usize = kani::any();
    kani::assume(cut <= N);
    let via_ref: bool = kani::any();
    let mut it = if via_ref { (&s).into_iter() } else { s.iter() };
    let mut cl = it.clone();
    let mut i = 0;
    while i < N + 2 {
        let rem = pre.len - core::cmp::min(i, pre.len);
        assert!(it.len() == rem && it.size_hint() == (rem, Some(rem)), "C09.Set::iter: len/size_hint are exact before every step");
        if i == cut {
            cl = it.clone();
            assert!(it.clone().count() == rem, "C09.Set::iter: count() agrees");
        }
        let x = it.next();
        if i < pre.len {
            assert!(x.unwrap().same(&pre.slot(i).0), "C09.Set::iter: the i-th item is the i-th stored element");
            assert!(inside(x.unwrap(), &s), "C06.Set::iter: items point inside the set");
        } else {
            assert!(x.is_none(), "C09.Set::iter: None after the end, repeatedly");
        }
        i += 1;
    }
    let mut j = 0;
    while j < N + 1 {
        let x = cl.next();
        let idx = cut + j;
        if idx < pre.len {
            assert!(x.unwrap().same(&pre.slot(idx).0), "C09.Set::iter: a cloned iterator continues identically");
        } else {
            assert!(x.is_none(), "C09.Set::iter: a cloned iterator ends identically");
        }
        j += 1;
    }
    assert!(smodel(&s).same(&pre), "C09.Set::iter: iteration leaves the set unchanged");
    kani::cover!(pre.len > 0 || N == 0, "reached");
}

/// C05 observational consequences from an arbitrary well-formed state
pub fn h_observe<K: Shape, V: Shape, const N: usize>() {
    let m: Map<K, V, N> = any_map();
    assert!(m.iter().count() == m.len(), "C05: the number of yielded entries equals len()");
    assert!(m.is_empty() == (m.len() == 0) && m.len() <= m.capacity() && m.capacity() == N, "C05: is_empty/len/capacity agree");
    let i: usize = kani::any();
    let j: usize = kani::any();
    if i < m.len() {
        let a = m.iter().nth(i).unwrap();
        assert!(same_opt(&m.get(a.0).copied(), &Some(*a.1)), "C05: every yielded key looks up the value yielded with it");
        if j < m.len() && i != j {
            let b = m.iter().nth(j).unwrap();
            assert!(*a.0 != *b.0, "C05: yielded keys are pairwise unequal");
        }
    }
    kani::cover!(true, "reached");
}
