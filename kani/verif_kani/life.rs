//! C02 / C04 - ownership ledger and unwind monitor harnesses (shape S_tok).
//! Every harness: arbitrary well-formed map of tokens ; run the real operation ;
//! destroy (or forget) what it handed back ; destroy the map ; sweep the ledger.
//! With `w == true` the map is *watched*: every user callback (Tok::eq/clone/
//! drop, predicates, closures, source iterators) checks that unwinding from that
//! very point would find a droppable container (C04).

use super::tok::*;
use crate::{Map, Set};

fn begin<V: Tokish, const N: usize>(w: bool, m: &Map<Tok, V, N>) {
    if w {
        watch(0, m);
    }
}
fn end<V: Tokish, const N: usize>(w: bool, m: Map<Tok, V, N>) {
    assert!(tok_wf(&m), "C04: the container is well-formed after the operation");
    unwatch(0);
    drop(m);
}

/// which: 0 insert, 1 insert_key_value, 2 checked_insert, 3 insert_unchecked
pub fn h_insert<const N: usize>(which: u8, w: bool) {
    let mut m = any_tok_map::<N>();
    let k = Tok::mint(kani::any());
    let v = Tok::mint(kani::any());
    let mut present = false;
    let mut i = 0;
    while i < N {
        if i < m.len && key_at(&m, i) == k.key {
            present = true;
        }
        i += 1;
    }
    if which != 2 {
        kani::assume(present || m.len < N);
    }
    begin(w, &m);
    match which {
        0 => drop(m.insert(k, v)),
        1 => drop(m.insert_key_value(k, v)),
        2 => drop(m.checked_insert(k, v)),
        _ => drop(unsafe { m.insert_unchecked(k, v) }),
    }
    end(w, m);
    all_dead_except(0);
    kani::cover!(present, "reached");
    kani::cover!(!present, "reached absent");
}

/// which: 0 remove, 1 remove_entry
pub fn h_remove<const N: usize>(which: u8, w: bool) {
    let mut m = any_tok_map::<N>();
    let k = Tok::mint(kani::any());
    begin(w, &m);
    match which {
        0 => drop(m.remove(&k)),
        _ => drop(m.remove_entry(&k)),
    }
    let forget_result: bool = kani::any();
    end(w, m);
    drop(k);
    all_dead_except(0);
    kani::cover!(true, "reached");
}

pub fn h_lookup<const N: usize>(w: bool) {
    let mut m = any_tok_map::<N>();
    let k = Tok::mint(kani::any());
    begin(w, &m);
    let a = m.get(&k).map(|t| t.id);
    if let Some(id) = a {
        assert!(is_live(id), "C02.get: returns a live element");
    }
    let b = m.get_key_value(&k).map(|(a, b)| (a.id, b.id));
    if let Some((x, y)) = b {
        assert!(is_live(x) && is_live(y), "C02.get_key_value: returns live elements");
    }
    let c = m.contains_key(&k);
    let d = m.get_mut(&k).map(|t| t.id);
    if let Some(id) = d {
        assert!(is_live(id), "C02.get_mut: returns a live element");
    }
    end(w, m);
    drop(k);
    all_dead_except(0);
    kani::cover!(a.is_some() || N == 0, "reached");
}

pub fn h_retain<const N: usize>(w: bool) {
    let mut m = any_tok_map::<N>();
    let keep: [bool; N] = kani::any();
    let mut calls = 0;
    begin(w, &m);
    m.retain(|k, v| {
        assert!(is_live(k.id) && is_live(v.id), "C02.retain: the predicate sees live elements only");
        monitor();
        let j = calls;
        calls += 1;
        j < N && keep[j]
    });
    end(w, m);
    all_dead_except(0);
    kani::cover!(calls > 0 || N == 0, "reached");
}

pub fn h_clear<const N: usize>(w: bool) {
    let mut m = any_tok_map::<N>();
    begin(w, &m);
    m.clear();
    assert!(m.len == 0, "C01.clear: empty afterwards");
    all_dead_except(0);
    end(w, m);
    kani::cover!(true, "reached");
}

/// drain, take a symbolic number of items, then drop or forget the drain
pub fn h_drain<const N: usize>(w: bool) {
    let mut m = any_tok_map::<N>();
    let pre_len = m.len;
    let take: usize = kani::any();
    kani::assume(take <= N);
    let forget: bool = kani::any();
    begin(w, &m);
    let mut got = 0;
    {
        let mut d = m.drain();
        let mut i = 0;
        while i < N {
            if i < take {
                if let Some((a, b)) = d.next() {
                    assert!(is_live(a.id) && is_live(b.id), "C02.drain: yields live elements");
                    got += 1;
                }
            }
            i += 1;
        }
        if forget {
            core::mem::forget(d);
        } else {
            drop(d);
        }
    }
    assert!(m.len == 0, "C10.drain: the map is empty whatever happened to the drain");
    end(w, m);
    if forget {
        all_dead_except(2 * (pre_len - got));
    } else {
        all_dead_except(0);
    }
    kani::cover!(got > 0 || N == 0, "reached");
}

/// which: 0 into_iter, 1 into_keys, 2 into_values
pub fn h_into_iter<const N: usize>(which: u8) {
    let m = any_tok_map::<N>();
    let pre_len = m.len;
    let take: usize = kani::any();
    kani::assume(take <= N);
    let forget: bool = kani::any();
    let mut got = 0;
    match which {
        0 => {
            let mut it = m.into_iter();
            let mut i = 0;
            while i < N {
                if i < take {
                    if let Some((a, b)) = it.next() {
                        assert!(is_live(a.id) && is_live(b.id), "C02.into_iter: yields live elements");
                        got += 1;
                    }
                }
                i += 1;
            }
            if forget { core::mem::forget(it) } else { drop(it) }
        }
        1 => {
            let mut it = m.into_keys();
            let mut i = 0;
            while i < N {
                if i < take {
                    if let Some(a) = it.next() {
                        assert!(is_live(a.id), "C02.into_keys: yields live elements");
                        got += 1;
                    }
                }
                i += 1;
            }
            if forget { core::mem::forget(it) } else { drop(it) }
        }
        _ => {
            let mut it = m.into_values();
            let mut i = 0;
            while i < N {
                if i < take {
                    if let Some(a) = it.next() {
                        assert!(is_live(a.id), "C02.into_values: yields live elements");
                        got += 1;
                    }
                }
                i += 1;
            }
            if forget { core::mem::forget(it) } else { drop(it) }
        }
    }
    if forget {
        all_dead_except(2 * (pre_len - got));
    } else {
        all_dead_except(0);
    }
    kani::cover!(got > 0 || N == 0, "reached");
}

pub fn h_clone<const N: usize>(w: bool) {
    let m = any_tok_map::<N>();
    let n0 = unsafe { NEXT };
    begin(w, &m);
    if w {
        watch_fn::<Tok, N>(2);
    }
    let c = m.clone();
    unwatch(2);
    assert!(tok_wf(&c) && c.len == m.len, "C15.clone: the clone is well-formed and has the same len");
    // exactly one clone per stored key and value, all fresh
    let mut i = 0;
    while i < N {
        if i < m.len {
            unsafe {
                assert!(CLONED[kid_at(&m, i)] == 1 && CLONED[vid_at(&m, i)] == 1, "C15.clone: each stored key and value is cloned exactly once");
            }
        }
        if i < c.len {
            assert!(kid_at(&c, i) >= n0 && vid_at(&c, i) >= n0, "C15.clone: the clone holds fresh elements (no sharing)");
        }
        i += 1;
    }
    assert!(unsafe { NEXT } == n0 + 2 * m.len, "C15.clone: nothing else is cloned");
    let first: bool = kani::any();
    if first {
        end(w, m);
        assert!(tok_wf(&c), "C15.clone: destroying the original leaves the clone intact");
        drop(c);
    } else {
        drop(c);
        assert!(tok_wf(&m), "C15.clone: destroying the clone leaves the original intact");
        end(w, m);
    }
    all_dead_except(0);
    kani::cover!(true, "reached");
}

pub fn h_eq<const N: usize, const M: usize>(w: bool) {
    let a = any_tok_map::<N>();
    let b = any_tok_map::<M>();
    begin(w, &a);
    if w {
        watch(1, &b);
    }
    let r = a == b;
    unwatch(1);
    assert!(tok_wf(&b), "C14.eq: right operand intact");
    end(w, a);
    drop(b);
    all_dead_except(0);
    kani::cover!(r || N != M, "reached");
}

/// which: 0 or_insert, 1 or_insert_with, 2 or_insert_with_key, 3 and_modify+or_insert,
/// 4 occupied remove / vacant into_key, 5 occupied insert / vacant insert, 6 occupied remove_entry
pub fn h_entry<const N: usize>(which: u8, w: bool) {
    let mut m = any_tok_map::<N>();
    let k = Tok::mint(kani::any());
    let mut present = false;
    let mut i = 0;
    while i < N {
        if i < m.len && key_at(&m, i) == k.key {
            present = true;
        }
        i += 1;
    }
    kani::assume(present || m.len < N);
    begin(w, &m);
    match which {
        0 => {
            let r = m.entry(k).or_insert(Tok::mint(0));
            assert!(is_live(r.id), "C02.entry: or_insert returns a live value");
        }
        1 => {
            let r = m.entry(k).or_insert_with(|| {
                monitor();
                Tok::mint(0)
            });
            assert!(is_live(r.id), "C02.entry: or_insert_with returns a live value");
        }
        2 => {
            let r = m.entry(k).or_insert_with_key(|kk| {
                assert!(is_live(kk.id), "C02.entry: or_insert_with_key shows a live key");
                monitor();
                Tok::mint(0)
            });
            assert!(is_live(r.id), "C02.entry: or_insert_with_key returns a live value");
        }
        3 => {
            let r = m
                .entry(k)
                .and_modify(|v| {
                    assert!(is_live(v.id), "C02.entry: and_modify shows a live value");
                    monitor();
                })
                .or_insert(Tok::mint(0));
            assert!(is_live(r.id), "C02.entry: returns a live value");
        }
        4 => match m.entry(k) {
            crate::Entry::Occupied(e) => drop(e.remove()),
            crate::Entry::Vacant(e) => drop(e.into_key()),
        },
        5 => match m.entry(k) {
            crate::Entry::Occupied(mut e) => drop(e.insert(Tok::mint(0))),
            crate::Entry::Vacant(e) => {
                e.insert(Tok::mint(0));
            }
        },
        _ => match m.entry(k) {
            crate::Entry::Occupied(e) => drop(e.remove_entry()),
            crate::Entry::Vacant(e) => drop(e),
        },
    }
    end(w, m);
    all_dead_except(0);
    kani::cover!(present, "reached");
    kani::cover!(!present, "reached absent");
}

pub fn h_drop<const N: usize>() {
    let m = any_tok_map::<N>();
    drop(m);
    all_dead_except(0);
    kani::cover!(true, "reached");
}

/// a source iterator that mints tokens and runs the monitor in `next`
pub struct Src<const L: usize> {
    pub keys: [u8; L],
    pub pos: usize,
}
impl<const L: usize> Iterator for Src<L> {
    type Item = (Tok, Tok);
    fn next(&mut self) -> Option<(Tok, Tok)> {
        monitor();
        if self.pos < L {
            let k = self.keys[self.pos];
            self.pos += 1;
            Some((Tok::mint(k), Tok::mint(k)))
        } else {
            None
        }
    }
}

pub fn count_distinct<const L: usize>(keys: &[u8; L]) -> usize {
    let mut n = 0;
    let mut i = 0;
    while i < L {
        let mut seen = false;
        let mut j = 0;
        while j < L {
            if j < i && keys[j] == keys[i] {
                seen = true;
            }
            j += 1;
        }
        if !seen {
            n += 1;
        }
        i += 1;
    }
    n
}

pub fn h_from_iter<const N: usize, const L: usize>() {
    let keys: [u8; L] = kani::any();
    kani::assume(count_distinct(&keys) <= N);
    let m: Map<Tok, Tok, N> = Src::<L> { keys, pos: 0 }.collect();
    assert!(tok_wf(&m) && m.len == count_distinct(&keys), "C16.from_iter: one entry per distinct key");
    drop(m);
    all_dead_except(0);
    kani::cover!(true, "reached");
}

// ------------------------------------------------------------------ sets

fn sbegin<const N: usize>(w: bool, s: &Set<Tok, N>) {
    if w {
        watch(0, super::spec::map_of_set(s));
    }
}
fn send<const N: usize>(w: bool, s: Set<Tok, N>) {
    assert!(tok_wf(super::spec::map_of_set(&s)), "C04: the set is well-formed after the operation");
    unwatch(0);
    drop(s);
}

/// which: 0 insert, 1 replace, 2 remove, 3 take, 4 retain, 5 clear, 6 contains+get, 7 drain, 8 clone
pub fn h_set<const N: usize>(which: u8, w: bool) {
    let mut s: Set<Tok, N> = super::spec::set_of_map(any_tok_set_map::<N>());
    let k = Tok::mint(kani::any());
    let sm = super::spec::map_of_set(&s);
    let mut present = false;
    let mut i = 0;
    while i < N {
        if i < sm.len && key_at(sm, i) == k.key {
            present = true;
        }
        i += 1;
    }
    if which < 2 {
        kani::assume(present || sm.len < N);
    }
    sbegin(w, &s);
    match which {
        0 => {
            s.insert(k);
        }
        1 => drop(s.replace(k)),
        2 => {
            s.remove(&k);
            drop(k);
        }
        3 => {
            drop(s.take(&k));
            drop(k);
        }
        4 => {
            let keep: [bool; N] = kani::any();
            let mut calls = 0;
            s.retain(|t| {
                assert!(is_live(t.id), "C02.Set::retain: the predicate sees live elements only");
                monitor();
                let j = calls;
                calls += 1;
                j < N && keep[j]
            });
            drop(k);
        }
        5 => {
            s.clear();
            drop(k);
        }
        6 => {
            let c = s.contains(&k);
            let g = s.get(&k).map(|t| t.id);
            assert!(c == g.is_some(), "C07.Set: contains agrees with get");
            if let Some(id) = g {
                assert!(is_live(id), "C02.Set::get: returns a live element");
            }
            drop(k);
        }
        7 => {
            let take: bool = kani::any();
            {
                let mut d = s.drain();
                if take {
                    drop(d.next());
                }
            }
            assert!(s.len() == 0, "C10.Set::drain: empty afterwards");
            drop(k);
        }
        _ => {
            if w {
                watch_fn::<(), N>(2);
            }
            let c = s.clone();
            unwatch(2);
            assert!(c.len() == s.len(), "C15.Set::clone: same len");
            drop(c);
            drop(k);
        }
    }
    send(w, s);
    all_dead_except(0);
    kani::cover!(present || N == 0, "reached");
}

/// Derived methods (nth, last, count, fold) of the consuming iterators and of drain:
/// every element is still destroyed exactly once, and while user code runs inside
/// `fold` the iterator's own map is droppable.
/// which: 0 into_iter 1 into_keys 2 into_values 3 drain ; op: 0 nth 1 last 2 count 3 fold
pub fn h_consume_derived<const N: usize>(which: u8, op: u8, w: bool) {
    let mut m = any_tok_map::<N>();
    let j: usize = kani::any();
    kani::assume(j <= N);
    macro_rules! go {
        ($it:expr, $watch:expr) => {{
            let mut it = $it;
            if w {
                $watch(&it);
            }
            match op {
                0 => {
                    drop(it.nth(j));
                    drop(it.next());
                    drop(it);
                }
                1 => drop(it.last()),
                2 => {
                    let _ = it.count();
                }
                _ => {
                    it.fold((), |_, x| {
                        // the item now belongs to user code: destroy it, then see
                        // whether a panic right here would leave a droppable container
                        drop(x);
                        monitor();
                    });
                }
            }
            unwatch(0);
        }};
    }
    match which {
        0 => go!(m.into_iter(), |it: &crate::IntoIter<Tok, Tok, N>| watch(0, &it.map)),
        1 => go!(m.into_keys(), |_it: &crate::IntoKeys<Tok, Tok, N>| ()),
        2 => go!(m.into_values(), |_it: &crate::IntoValues<Tok, Tok, N>| ()),
        _ => {
            go!(m.drain(), |_it: &crate::Drain<'_, Tok, Tok>| ());
            assert!(m.len == 0, "C10.drain: empty afterwards");
            drop(m);
        }
    }
    all_dead_except(0);
    kani::cover!(true, "reached");
}

/// clone_from on tokens: the destination's old elements die exactly once, the source is untouched
pub fn h_clone_from<const N: usize>() {
    let src = any_tok_map::<N>();
    let mut dst = any_tok_map::<N>();
    dst.clone_from(&src);
    assert!(tok_wf(&dst) && dst.len == src.len && tok_wf(&src), "C15.clone_from: destination well-formed with the source's len");
    drop(dst);
    drop(src);
    all_dead_except(0);
    kani::cover!(true, "reached");
}
