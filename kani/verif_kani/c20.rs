//! C20 - serde round trip (feature serde; bincode legacy config, fixed-int, through
//! slices: no allocation).  Trusted: serde and bincode themselves.

use super::spec::*;
use crate::{Map, Set};

pub fn h_map_roundtrip<const N: usize, const M: usize>(len: usize) {
    let m: Map<u8, u8, N> = any_map_len(len);
    let pre = model(&m);
    let mut buf = [0u8; 8 + 2 * 4];
    let cfg = bincode::config::legacy();
    let n = bincode::serde::encode_into_slice(&m, &mut buf, cfg);
    assert!(n.is_ok(), "C20: serializing a map succeeds");
    let n = n.unwrap();
    assert!(n == 8 + 2 * len, "C20: serializing emits exactly len() entries");
    let announced = u64::from_le_bytes([buf[0], buf[1], buf[2], buf[3], buf[4], buf[5], buf[6], buf[7]]);
    assert!(announced as usize == len, "C20: the announced length is len()");
    let r: Result<(Map<u8, u8, M>, usize), _> = bincode::serde::decode_from_slice(&buf[..n], cfg);
    assert!(r.is_ok(), "C20: deserializing into a container of sufficient capacity succeeds");
    let (d, used) = r.unwrap();
    assert!(used == n, "C20: deserializing consumes all bytes");
    let md = model(&d);
    let q: u8 = kani::any();
    assert!(md.len == pre.len && md.wf() && same_opt_pair(&md.get(&q), &pre.get(&q)), "C20: the deserialized map holds exactly the original entries");
    assert!(d == m, "C20: the deserialized map equals the original");
    assert!(model(&m).same(&pre), "C20: serializing leaves the map unchanged");
    kani::cover!(true, "reached");
}

pub fn h_set_roundtrip<const N: usize, const M: usize>(len: usize) {
    let s: Set<u8, N> = any_set_len(len);
    let pre = smodel(&s);
    let mut buf = [0u8; 8 + 4];
    let cfg = bincode::config::legacy();
    let n = bincode::serde::encode_into_slice(&s, &mut buf, cfg);
    assert!(n.is_ok(), "C20: serializing a set succeeds");
    let n = n.unwrap();
    assert!(n == 8 + len, "C20: serializing emits exactly len() elements");
    let r: Result<(Set<u8, M>, usize), _> = bincode::serde::decode_from_slice(&buf[..n], cfg);
    assert!(r.is_ok(), "C20: deserializing into a set of sufficient capacity succeeds");
    let (d, used) = r.unwrap();
    assert!(used == n, "C20: deserializing consumes all bytes");
    let md = smodel(&d);
    let q: u8 = kani::any();
    assert!(md.len == pre.len && md.wf() && same_opt_pair(&md.get(&q), &pre.get(&q)), "C20: the deserialized set holds exactly the original elements");
    assert!(d == s, "C20: the deserialized set equals the original");
    kani::cover!(true, "reached");
}
