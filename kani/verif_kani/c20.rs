//! C20 - serde round trip (feature serde; bincode legacy config, fixed-int, through
//! slices: no allocation).  Trusted: serde and bincode themselves.

use super::spec::*;
use crate::{Map, Set};

pub fn h_map_roundtrip<const N: usize, const M: usize>(len: usize) {
    let m: Map<u8, u8, N> = any_map_len(len);
    let pre = model(&m);
    let mut buf = [0u8; 8 + 2 * 4];
    let cfg = bincode::config::legacy();
    let n = bincode::serde::encode_into_slice(&m, &mut buf, cfg);
    assert!(n.is_ok(), "C20: serializing a map succeeds");
    let n = n.unwrap();
    assert!(n == 8 + 2 * len, "C20: serializing emits exactly len() entries");
    let announced = u64::from_le_bytes([buf[0], buf[1], buf[2], buf[3], buf[4], buf[5], buf[6], buf[7]]);
    assert!(announced as usize == len, "C20: the announced length is len()");
    let r: Result<(Map<u8, u8, M>, usize), _> = bincode::serde::decode_from_slice(&buf[..n], cfg);
    assert!(r.is_ok(), "C20: deserializing into a container of sufficient capacity succeeds");
    let (d, used) = r.unwrap();
    assert!(used == n, "C20: deserializing consumes all bytes");
    let md = model(&d);
    let q: u8 = kani::any();
    assert!(md.len == pre.len && md.wf() && same_opt_pair(&md.get(&q), &pre.get(&q)), "C20: the deserialized map holds exactly the original entries");
    assert!(d == m, "C20: the deserialized map equals the original");
    assert!(model(&m).same(&pre), "C20: serializing leaves the map unchanged");
    kani::cover!(true, "reached");
}

pub fn h_set_roundtrip<const N: usize, const M: usize>(len: usize) {
    let s: Set<u8, N> = any_set_len(len);
    let pre = smodel(&s);
    let mut buf = [0u8; 8 + 4];
    let cfg = bincode::config::legacy();
    let n = bincode::serde::encode_into_slice(&s, &mut buf, cfg);
    assert!(n.is_ok(), "C20: serializing a set succeeds");
    let n = n.unwrap();
    assert!(n == 8 + len, "C20: serializing emits exactly len() elements");
    let r: Result<(Set<u8, M>, usize), _> = bincode::serde::decode_from_slice(&buf[..n], cfg);
    assert!(r.is_ok(), "C20: deserializing into a set of sufficient capacity succeeds");
    let (d, used) = r.unwrap();
    assert!(used == n, "C20: deserializing consumes all bytes");
    let md = smodel(&d);
    let q: u8 = kani::any();
    assert!(md.len == pre.len && md.wf() && same_opt_pair(&md.get(&q), &pre.get(&q)), "C20: the deserialized set holds exactly the original elements");
    assert!(d == s, "C20: the deserialized set equals the original");
    kani::cover!(true, "reached");
}

/// Deserializing *arbitrary* well-formed input (repeats allowed) yields a well-formed
/// container: exactly what inserting the decoded items one by one gives (C05, C16).
pub fn h_decode_arbitrary<const M: usize>(n: usize, as_set: bool) {
    assert!(n <= 3);
    let items: [(u8, u8); 3] = kani::any();
    // distinct keys among the first n
    let mut d = 0;
    let mut i = 0;
    while i < 3 {
        if i < n {
            let mut dup = false;
            let mut j = 0;
            while j < 3 {
                if j < i && items[j].0 == items[i].0 {
                    dup = true;
                }
                j += 1;
            }
            if !dup {
                d += 1;
            }
        }
        i += 1;
    }
    kani::assume(d <= M);
    let mut buf = [0u8; 8 + 6];
    buf[0] = n as u8;
    let cfg = bincode::config::legacy();
    let q: u8 = kani::any();
    // expectation for the probe: last value of q among the first n items
    let mut e: Option<u8> = None;
    let mut i = 0;
    while i < 3 {
        if i < n && items[i].0 == q {
            e = Some(items[i].1);
        }
        i += 1;
    }
    if as_set {
        let mut i = 0;
        while i < 3 {
            if i < n {
                buf[8 + i] = items[i].0;
            }
            i += 1;
        }
        let r: Result<(Set<u8, M>, usize), _> = bincode::serde::decode_from_slice(&buf[..8 + n], cfg);
        assert!(r.is_ok(), "C20: input with at most M distinct elements deserializes");
        let (s, _) = r.unwrap();
        let ms = smodel(&s);
        assert!(ms.wf() && ms.len == d, "C05: a deserialized set has pairwise different elements and len() counts them");
        assert!(ms.contains(&q) == e.is_some(), "C20: membership equals the decoded items");
    } else {
        let mut i = 0;
        while i < 3 {
            if i < n {
                buf[8 + 2 * i] = items[i].0;
                buf[8 + 2 * i + 1] = items[i].1;
            }
            i += 1;
        }
        let r: Result<(Map<u8, u8, M>, usize), _> = bincode::serde::decode_from_slice(&buf[..8 + 2 * n], cfg);
        assert!(r.is_ok(), "C20: input with at most M distinct keys deserializes");
        let (m, _) = r.unwrap();
        let mm = model(&m);
        assert!(mm.wf() && mm.len == d, "C05: a deserialized map has pairwise different keys and len() counts them");
        assert!(same_opt(&mm.get(&q).map(|p| p.1), &e), "C20: bindings equal inserting the decoded entries one by one (last value wins)");
    }
    kani::cover!(d < n, "reached");
}

/// `Deserialize::deserialize_in_place` (a defaulted method): decoding in place into a
/// non-empty container must give exactly what a fresh decode gives.
pub fn h_decode_in_place<const N: usize>(len: usize) {
    use serde::Deserialize;
    let src: Set<u8, N> = any_set_len(len);
    let msrc: Map<u8, u8, N> = any_map_len(len);
    let mut buf = [0u8; 8 + 8];
    let cfg = bincode::config::legacy();
    let n = bincode::serde::encode_into_slice(&src, &mut buf, cfg).unwrap();
    let mut place: Set<u8, N> = any_set();
    {
        let mut dec = bincode::serde::BorrowedSerdeDecoder::from_slice(&buf[..n], cfg, ());
        let r = Set::<u8, N>::deserialize_in_place(dec.as_deserializer(), &mut place);
        assert!(r.is_ok(), "C20: in-place deserialization into a container of sufficient capacity succeeds");
    }
    assert!(place == src && smodel(&place).wf(), "C20: in-place deserialization yields a container equal to the original, whatever it held before");
    let n = bincode::serde::encode_into_slice(&msrc, &mut buf, cfg).unwrap();
    let mut mplace: Map<u8, u8, N> = any_map();
    {
        let mut dec = bincode::serde::BorrowedSerdeDecoder::from_slice(&buf[..n], cfg, ());
        let r = Map::<u8, u8, N>::deserialize_in_place(dec.as_deserializer(), &mut mplace);
        assert!(r.is_ok(), "C20: in-place deserialization of a map succeeds");
    }
    assert!(mplace == msrc && model(&mplace).wf(), "C20: in-place deserialization of a map yields a map equal to the original");
    kani::cover!(true, "reached");
}
