//! Contract vocabulary: element shapes, the abstract model (association list in
//! slot order) of a `Map`, and generators of arbitrary well-formed states.
//!
//! `Model` is the *ideal dictionary* the properties speak about: `get` is the
//! mathematical lookup, `wf` says keys are pairwise different.  Post-conditions of
//! public functions are stated on `Model::get` for a *symbolic probe key*, on `len`
//! and on `wf` - never on slot positions - so they pin down the whole view.

use crate::{Map, Set};
use core::borrow::Borrow;
use core::mem::MaybeUninit;

/// Element types used to instantiate the generic harnesses.
pub trait Shape: Copy + PartialEq + kani::Arbitrary {
    /// bit-identity (distinguishes keys that compare equal)
    fn same(&self, o: &Self) -> bool;
    /// the part `==` looks at
    fn ident(&self) -> u8;
    fn make(ident: u8, tag: u8) -> Self;
}

impl Shape for u8 {
    fn same(&self, o: &Self) -> bool {
        *self == *o
    }
    fn ident(&self) -> u8 {
        *self
    }
    fn make(ident: u8, _tag: u8) -> Self {
        ident
    }
}

impl Shape for () {
    fn same(&self, _o: &Self) -> bool {
        true
    }
    fn ident(&self) -> u8 {
        0
    }
    fn make(_ident: u8, _tag: u8) -> Self {}
}

/// A key whose `==` looks at `id` only; `tag` makes equal keys distinguishable.
/// Its borrowed form is the `id`.
#[derive(Clone, Copy, Debug)]
pub struct Key {
    pub id: u8,
    pub tag: u8,
}

impl PartialEq for Key {
    fn eq(&self, o: &Self) -> bool {
        self.id == o.id
    }
}
impl Eq for Key {}
impl Borrow<u8> for Key {
    fn borrow(&self) -> &u8 {
        &self.id
    }
}
impl kani::Arbitrary for Key {
    fn any() -> Self {
        Key { id: kani::any(), tag: kani::any() }
    }
}
impl Shape for Key {
    fn same(&self, o: &Self) -> bool {
        self.id == o.id && self.tag == o.tag
    }
    fn ident(&self) -> u8 {
        self.id
    }
    fn make(ident: u8, tag: u8) -> Self {
        Key { id: ident, tag }
    }
}

pub fn same_pair<K: Shape, V: Shape>(a: &(K, V), b: &(K, V)) -> bool {
    a.0.same(&b.0) && a.1.same(&b.1)
}

pub fn same_opt<T: Shape>(a: &Option<T>, b: &Option<T>) -> bool {
    match (a, b) {
        (None, None) => true,
        (Some(x), Some(y)) => x.same(y),
        _ => false,
    }
}

pub fn same_opt_pair<K: Shape, V: Shape>(a: &Option<(K, V)>, b: &Option<(K, V)>) -> bool {
    match (a, b) {
        (None, None) => true,
        (Some(x), Some(y)) => same_pair(x, y),
        _ => false,
    }
}

/// The abstract value of a map: its live slots in slot order.
#[derive(Clone, Copy)]
pub struct Model<K, V, const N: usize> {
    pub len: usize,
    pub items: [Option<(K, V)>; N],
}

/// Reads the live prefix of the real representation (private fields).
pub fn model<K: Copy, V: Copy, const N: usize>(m: &Map<K, V, N>) -> Model<K, V, N> {
    let mut items: [Option<(K, V)>; N] = [None; N];
    let mut i = 0;
    while i < N {
        if i < m.len {
            items[i] = Some(unsafe { *m.pairs[i].assume_init_ref() });
        }
        i += 1;
    }
    Model { len: m.len, items }
}

impl<K: Shape, V: Shape, const N: usize> Model<K, V, N> {
    /// mathematical lookup (first slot whose key `==` k)
    pub fn get(&self, k: &K) -> Option<(K, V)> {
        let mut r = None;
        let mut i = 0;
        while i < N {
            if i < self.len && r.is_none() {
                if let Some(p) = self.items[i] {
                    if p.0 == *k {
                        r = Some(p);
                    }
                }
            }
            i += 1;
        }
        r
    }
    pub fn pos(&self, k: &K) -> Option<usize> {
        let mut r = None;
        let mut i = 0;
        while i < N {
            if i < self.len && r.is_none() {
                if let Some(p) = self.items[i] {
                    if p.0 == *k {
                        r = Some(i);
                    }
                }
            }
            i += 1;
        }
        r
    }
    pub fn contains(&self, k: &K) -> bool {
        self.get(k).is_some()
    }
    /// how many live slots hold a key `==` k
    pub fn count(&self, k: &K) -> usize {
        let mut c = 0;
        let mut i = 0;
        while i < N {
            if i < self.len {
                if let Some(p) = self.items[i] {
                    if p.0 == *k {
                        c += 1;
                    }
                }
            }
            i += 1;
        }
        c
    }
    /// representation invariant: len within capacity, keys pairwise different
    pub fn wf(&self) -> bool {
        if self.len > N {
            return false;
        }
        let mut ok = true;
        let mut i = 0;
        while i < N {
            let mut j = i + 1;
            while j < N {
                if j < self.len {
                    if let (Some(a), Some(b)) = (self.items[i], self.items[j]) {
                        if a.0 == b.0 {
                            ok = false;
                        }
                    }
                }
                j += 1;
            }
            i += 1;
        }
        ok
    }
    /// bit-identical representation (same slots in the same order)
    pub fn same(&self, o: &Self) -> bool {
        if self.len != o.len {
            return false;
        }
        let mut ok = true;
        let mut i = 0;
        while i < N {
            if i < self.len {
                if !same_opt_pair(&self.items[i], &o.items[i]) {
                    ok = false;
                }
            }
            i += 1;
        }
        ok
    }
    pub fn slot(&self, i: usize) -> (K, V) {
        self.items[i].unwrap()
    }
}

/// `wf_weak` state: any len <= N, any content in the live prefix, nothing assumed
/// about keys (duplicates allowed).  Slots beyond `len` are filled with arbitrary
/// bytes too: that is what uninitialised / vacated memory is, and it makes every
/// use of such a slot visible in the results (Kani itself would zero them).
pub fn any_map_weak<K: Shape, V: Shape, const N: usize>() -> Map<K, V, N> {
    let mut m: Map<K, V, N> = Map::new();
    let len: usize = kani::any();
    kani::assume(len <= N);
    let mut i = 0;
    while i < N {
        m.pairs[i] = MaybeUninit::new((kani::any(), kani::any()));
        i += 1;
    }
    m.len = len;
    m
}

/// Arbitrary well-formed state: every reachable state has this shape and every
/// such state is reachable (insert its slots in order), so a contract proved
/// from `any_map()` covers every history.
pub fn any_map<K: Shape, V: Shape, const N: usize>() -> Map<K, V, N> {
    let m = any_map_weak::<K, V, N>();
    kani::assume(model(&m).wf());
    m
}

pub fn set_of_map<T, const N: usize>(m: Map<T, (), N>) -> Set<T, N> {
    // Set is #[repr(transparent)] over Map<T, (), N>
    let s = unsafe { core::ptr::read(&m as *const Map<T, (), N> as *const Set<T, N>) };
    core::mem::forget(m);
    s
}

pub fn map_of_set<T, const N: usize>(s: &Set<T, N>) -> &Map<T, (), N> {
    unsafe { &*(s as *const Set<T, N> as *const Map<T, (), N>) }
}

/// like `any_map` with a concrete fill level (lets CBMC unroll the crate's slice
/// loops exactly instead of up to the unwinding bound)
pub fn any_map_len<K: Shape, V: Shape, const N: usize>(len: usize) -> Map<K, V, N> {
    assert!(len <= N);
    let mut m: Map<K, V, N> = Map::new();
    let mut i = 0;
    while i < N {
        m.pairs[i] = MaybeUninit::new((kani::any(), kani::any()));
        i += 1;
    }
    m.len = len;
    kani::assume(model(&m).wf());
    m
}

pub fn any_set_len<T: Shape, const N: usize>(len: usize) -> Set<T, N> {
    set_of_map(any_map_len::<T, (), N>(len))
}

pub fn any_set<T: Shape, const N: usize>() -> Set<T, N> {
    set_of_map(any_map::<T, (), N>())
}

pub fn any_set_weak<T: Shape, const N: usize>() -> Set<T, N> {
    set_of_map(any_map_weak::<T, (), N>())
}

pub fn smodel<T: Copy, const N: usize>(s: &Set<T, N>) -> Model<T, (), N> {
    model(map_of_set(s))
}

/// true when `r` points inside the bytes of `*container`
pub fn inside<T, C>(r: &T, container: &C) -> bool {
    let lo = container as *const C as usize;
    let hi = lo + core::mem::size_of::<C>();
    let p = r as *const T as usize;
    p >= lo && p + core::mem::size_of::<T>() <= hi
}

/// A key type whose `==` is not reflexive (like f32 with NaN): lawful for a
/// `PartialEq`-keyed map, and the ideal dictionary never finds a `nan` key.
#[derive(Clone, Copy, Debug)]
pub struct Nr {
    pub id: u8,
    pub nan: bool,
}
impl PartialEq for Nr {
    fn eq(&self, o: &Self) -> bool {
        !self.nan && !o.nan && self.id == o.id
    }
}
impl kani::Arbitrary for Nr {
    fn any() -> Self {
        Nr { id: kani::any(), nan: kani::any() }
    }
}
impl Shape for Nr {
    fn same(&self, o: &Self) -> bool {
        self.id == o.id && self.nan == o.nan
    }
    fn ident(&self) -> u8 {
        self.id
    }
    fn make(ident: u8, tag: u8) -> Self {
        Nr { id: ident, nan: tag & 1 == 1 }
    }
}
