//! Pipeline canary: a deliberately false postcondition on the real swap-remove
//! core.  This harness MUST fail; if it verifies, the machinery cannot report
//! failures and every result of the run is discarded.

use super::spec::*;
use crate::Map;

pub fn h_canary_must_fail<const N: usize>() {
    let mut m: Map<u8, u8, N> = any_map();
    kani::assume(m.len > 0);
    let pre = model(&m);
    let _ = unsafe { m.remove_index_read(0) };
    assert!(m.len == pre.len, "canary: swap-remove leaves len unchanged (false on purpose)");
}
