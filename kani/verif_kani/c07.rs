//! C07 - Set agrees with the ideal bounded set (and C12 for Set::insert/replace).

use super::spec::*;
use crate::Set;
use core::borrow::Borrow;

/// which: 0 insert, 1 replace
pub fn h_set_insert<T: Shape, const N: usize>(which: u8) {
    let mut s: Set<T, N> = any_set();
    let pre = smodel(&s);
    let k: T = kani::any();
    let old = pre.get(&k).map(|p| p.0);
    kani::assume(old.is_some() || pre.len < N);
    let stored = if which == 1 { k } else { old.unwrap_or(k) };
    if which == 0 {
        let r = s.insert(k);
        assert!(r == old.is_none(), "C07.insert: returns true exactly when the element was absent");
    } else {
        let r = s.replace(k);
        assert!(same_opt(&r, &old), "C12.replace: hands back the previously stored element");
    }
    let post = smodel(&s);
    let q: T = kani::any();
    let e = if q == k { Some(stored) } else { pre.get(&q).map(|p| p.0) };
    assert!(same_opt(&post.get(&q).map(|p| p.0), &e),
        "C07.insert: afterwards the element is a member (stored object per C12) and no other membership changed");
    assert!(post.len == pre.len + (if old.is_none() { 1 } else { 0 }) && post.wf(), "C07.insert: len and uniqueness");
    assert!(s.len() == post.len && s.capacity() == N && s.is_empty() == (post.len == 0), "C05.Set: len/capacity/is_empty agree");
    kani::cover!(old.is_some(), "reached");
    kani::cover!(old.is_none(), "reached absent");
}

pub fn h_set_lookup<T: Shape + Borrow<u8>, const N: usize>() {
    let s: Set<T, N> = any_set();
    let pre = smodel(&s);
    let k: T = kani::any();
    let exp = pre.get(&k).map(|p| p.0);
    assert!(s.contains::<T>(&k) == exp.is_some(), "C07.contains: reports presence truthfully");
    assert!(s.contains::<u8>(k.borrow()) == exp.is_some(), "C07.contains: borrowed form");
    {
        let g = s.get::<T>(&k);
        assert!(same_opt(&g.copied(), &exp), "C07.get: returns the stored element");
        if let Some(r) = g {
            assert!(inside(r, &s), "C06.Set::get: reference points inside the set");
        }
        assert!(same_opt(&s.get::<u8>(k.borrow()).copied(), &exp), "C07.get: borrowed form");
    }
    assert!(smodel(&s).same(&pre), "C07: lookups leave the set unchanged");
    kani::cover!(exp.is_some() || N == 0, "reached");
}

/// which: 0 remove, 1 take, 2 remove borrowed, 3 take borrowed
pub fn h_set_remove<T: Shape + Borrow<u8>, const N: usize>(which: u8) {
    let mut s: Set<T, N> = any_set();
    let pre = smodel(&s);
    let k: T = kani::any();
    let old = pre.get(&k).map(|p| p.0);
    match which {
        0 => assert!(s.remove::<T>(&k) == old.is_some(), "C07.remove: reports presence truthfully"),
        1 => assert!(same_opt(&s.take::<T>(&k), &old), "C07.take: returns the stored element"),
        2 => assert!(s.remove::<u8>(k.borrow()) == old.is_some(), "C07.remove: borrowed form"),
        _ => assert!(same_opt(&s.take::<u8>(k.borrow()), &old), "C07.take: borrowed form"),
    }
    let post = smodel(&s);
    let q: T = kani::any();
    let e = if q == k { None } else { pre.get(&q).map(|p| p.0) };
    assert!(same_opt(&post.get(&q).map(|p| p.0), &e), "C07.remove: the element is gone and no other membership changed");
    assert!(post.len == pre.len - (if old.is_some() { 1 } else { 0 }) && post.wf(), "C07.remove: len and uniqueness");
    kani::cover!(old.is_some() || N == 0, "reached");
}

pub fn h_set_retain<T: Shape, const N: usize>() {
    let mut s: Set<T, N> = any_set();
    let pre = smodel(&s);
    let keep: [bool; N] = kani::any();
    let mut keys: [Option<T>; N] = [None; N];
    let mut calls = 0;
    s.retain(|k| {
        let j = calls;
        calls += 1;
        if j < N {
            keys[j] = Some(*k);
            keep[j]
        } else {
            false
        }
    });
    let post = smodel(&s);
    assert!(calls == pre.len, "C07.retain: the predicate runs exactly once per element");
    let q: T = kani::any();
    let mut e: Option<T> = None;
    let mut shown = 0;
    let mut kept = 0;
    let mut j = 0;
    while j < N {
        if j < calls {
            let kk = keys[j].unwrap();
            if kk == q {
                shown += 1;
                if keep[j] {
                    e = Some(kk);
                }
            }
            if keep[j] {
                kept += 1;
            }
        }
        j += 1;
    }
    assert!(shown == (if pre.contains(&q) { 1 } else { 0 }), "C07.retain: each element is shown exactly once");
    assert!(same_opt(&post.get(&q).map(|p| p.0), &e), "C07.retain: exactly the kept elements remain");
    assert!(post.len == kept && post.wf(), "C07.retain: len and uniqueness");
    kani::cover!(post.len < pre.len || N == 0, "reached");
}

pub fn h_set_clear_drain<T: Shape, const N: usize>(use_drain: bool) {
    let mut s: Set<T, N> = any_set();
    let pre = smodel(&s);
    if use_drain {
        let take: usize = kani::any();
        kani::assume(take <= N);
        let mut d = s.drain();
        let mut i = 0;
        while i < N {
            if i < take {
                assert!(d.len() == pre.len - core::cmp::min(i, pre.len), "C10.Set::drain: exact len before every step");
                let it = d.next();
                if i < pre.len {
                    assert!(it.is_some() && pre.count(&it.unwrap()) == 1, "C10.Set::drain: yields stored elements");
                } else {
                    assert!(it.is_none(), "C10.Set::drain: None after the end");
                }
            }
            i += 1;
        }
    } else {
        s.clear();
    }
    assert!(s.len() == 0 && s.is_empty(), "C07.clear/drain: the set is empty afterwards");
    let q: T = kani::any();
    assert!(!s.contains(&q), "C07.clear/drain: nothing is a member afterwards");
    if N > 0 {
        assert!(s.insert(q) && s.contains(&q) && s.len() == 1, "C10.Set::drain: the set is reusable afterwards");
    }
    kani::cover!(true, "reached");
}

/// an iterator that, like `filter`/`from_fn`, reports no useful size hint
pub struct Lazy<T: Copy, const L: usize> {
    pub items: [T; L],
    pub pos: usize,
}
impl<T: Copy, const L: usize> Iterator for Lazy<T, L> {
    type Item = T;
    fn next(&mut self) -> Option<T> {
        if self.pos < L {
            self.pos += 1;
            Some(self.items[self.pos - 1])
        } else {
            None
        }
    }
    fn size_hint(&self) -> (usize, Option<usize>) {
        (0, None)
    }
}

/// Extend<T>: same as inserting one by one.  mode: 0 by value (array), 1 by reference, 2 lazy iterator
pub fn h_set_extend<T: Shape, const N: usize, const L: usize>(mode: u8) {
    let mut s: Set<T, N> = any_set();
    let pre = smodel(&s);
    let items: [T; L] = kani::any();
    // enough room: distinct new elements fit
    let mut newc = 0;
    let mut i = 0;
    while i < L {
        let mut dup = pre.contains(&items[i]);
        let mut j = 0;
        while j < L {
            if j < i && items[j] == items[i] {
                dup = true;
            }
            j += 1;
        }
        if !dup {
            newc += 1;
        }
        i += 1;
    }
    kani::assume(pre.len + newc <= N);
    match mode {
        0 => s.extend(items),
        1 => s.extend(items.iter()),
        _ => {
            let mut src = Lazy { items, pos: 0 };
            s.extend(&mut src);
            assert!(src.pos == L, "C16.extend: the source is consumed to its end");
        }
    }
    let post = smodel(&s);
    let q: T = kani::any();
    // first occurrence wins (stored object kept)
    let mut e = pre.get(&q).map(|p| p.0);
    let mut i = 0;
    while i < L {
        if e.is_none() && items[i] == q {
            e = Some(items[i]);
        }
        i += 1;
    }
    assert!(same_opt(&post.get(&q).map(|p| p.0), &e), "C07.extend: membership equals inserting the items one by one (first object kept)");
    assert!(post.len == pre.len + newc && post.wf(), "C07.extend: repeats do not consume capacity");
    kani::cover!(newc > 0 || N == 0, "reached");
}

/// Lookups on containers of a zero-sized element (`Set<(), N>`, `Map<(), (), N>`): the slot
/// array occupies no bytes, so any lookup that reasons about addresses instead of `len`
/// goes wrong exactly here.  `() == ()` always, so a well-formed container holds 0 or 1 entry.
pub fn h_zst_lookup<const N: usize>() {
    let mut s: Set<(), N> = any_set();
    let n = s.len();
    assert!(n <= 1 && n <= N);
    assert!(s.contains(&()) == (n == 1), "C07.contains: reports presence truthfully (zero-sized element)");
    assert!(s.get(&()).is_some() == (n == 1), "C07.get: returns the stored element (zero-sized element)");
    assert!(s.iter().count() == n, "C05.Set: len equals what iteration yields (zero-sized element)");
    let mut m: crate::Map<(), (), N> = any_map();
    let k = m.len();
    assert!(k <= 1);
    assert!(m.contains_key(&()) == (k == 1), "C01.contains_key: equals model membership (zero-sized entries)");
    assert!(m.get(&()).is_some() == (k == 1), "C01.get: equals the model lookup (zero-sized entries)");
    assert!(m.get_key_value(&()).is_some() == (k == 1), "C01.get_key_value: equals the model lookup (zero-sized entries)");
    assert!(m.get_mut(&()).is_some() == (k == 1), "C01.get_mut: equals the model lookup (zero-sized entries)");
    assert!(m.remove(&()).is_some() == (k == 1) && m.len() == 0, "C01.remove: removes exactly the binding (zero-sized entries)");
    assert!(s.remove(&()) == (n == 1) && s.len() == 0 && !s.contains(&()), "C07.remove: removes exactly the element (zero-sized element)");
    kani::cover!(n == 1 && k == 1, "reached");
}
