//! Ownership tokens (shape S_tok): every key/value is a `Tok` registered in a
//! global ledger.  `Drop`, `==` and `Clone` are the *user callbacks* of the
//! container; each of them
//!   * asserts the ledger discipline (C02): a token is destroyed exactly once,
//!     only live tokens are compared / cloned / destroyed, so touching a vacated
//!     or never-initialised slot (nondeterministic bytes under CBMC) fails;
//!   * runs the unwind monitor (C04) on every watched container: if user code
//!     panicked right here, would unwinding find the container droppable?

use crate::Map;

pub const MAXT: usize = 16;
pub const NONE: usize = usize::MAX;

pub static mut STATE: [u8; MAXT] = [0; MAXT]; // 0 unborn, 1 live, 2 dead
pub static mut CLONED: [u8; MAXT] = [0; MAXT]; // clones taken from token i
pub static mut ORIGIN: [usize; MAXT] = [NONE; MAXT]; // source token of a clone
pub static mut NEXT: usize = 1; // id 0 is never issued: zeroed (never written) slots are not live
pub static mut DROPPING: usize = NONE;
pub static mut CALLBACKS: usize = 0;
/// C17: when set, every `==` on tokens answers arbitrarily (a fresh nondeterministic
/// bool per call) - one proof covers all outcome sequences of all comparisons
pub static mut LAWLESS: bool = false;

pub static mut WATCH_PTR: [*const (); 3] = [core::ptr::null(); 3];
pub static mut WATCH_FN: [Option<fn(*const ())>; 3] = [None; 3];

#[derive(Debug)]
pub struct Tok {
    pub id: usize,
    pub key: u8,
}

pub fn is_live(id: usize) -> bool {
    unsafe { id < NEXT && id < MAXT && STATE[id] == 1 }
}
pub fn is_dead(id: usize) -> bool {
    unsafe { id < NEXT && id < MAXT && STATE[id] == 2 }
}

impl Tok {
    pub fn mint(key: u8) -> Tok {
        unsafe {
            let id = NEXT;
            assert!(id < MAXT, "harness: token ledger too small");
            NEXT += 1;
            STATE[id] = 1;
            Tok { id, key }
        }
    }
}

impl kani::Arbitrary for Tok {
    fn any() -> Self {
        Tok::mint(kani::any())
    }
}

impl Drop for Tok {
    fn drop(&mut self) {
        unsafe {
            assert!(self.id < NEXT && self.id < MAXT,
                "C02: destroyed something that is not a live element (uninitialised or vacated slot)");
            assert!(STATE[self.id] == 1, "C02: element destroyed twice");
            DROPPING = self.id;
            monitor();
            DROPPING = NONE;
            STATE[self.id] = 2;
        }
    }
}

impl PartialEq for Tok {
    fn eq(&self, o: &Self) -> bool {
        assert!(is_live(self.id) && is_live(o.id), "C02: compared a dead or uninitialised element");
        monitor();
        if unsafe { LAWLESS } {
            return kani::any();
        }
        self.key == o.key
    }
}
impl Eq for Tok {}

impl Clone for Tok {
    fn clone(&self) -> Self {
        assert!(is_live(self.id), "C02: cloned a dead or uninitialised element");
        monitor();
        unsafe {
            CLONED[self.id] += 1;
            let t = Tok::mint(self.key);
            ORIGIN[t.id] = self.id;
            t
        }
    }
}

impl core::borrow::Borrow<u8> for Tok {
    fn borrow(&self) -> &u8 {
        &self.key
    }
}

/// token-ness of a map's value type (sets use `()`)
pub trait Tokish {
    fn tid(&self) -> usize;
}
impl Tokish for Tok {
    fn tid(&self) -> usize {
        self.id
    }
}
impl Tokish for () {
    fn tid(&self) -> usize {
        NONE
    }
}

/// Runs at every user callback: all watched containers must be in a state that
/// unwinding could drop.
pub fn monitor() {
    unsafe {
        CALLBACKS += 1;
        monitor1(0);
        monitor1(1);
        monitor1(2);
    }
}

unsafe fn monitor1(s: usize) {
    if let Some(f) = WATCH_FN[s] {
        if !WATCH_PTR[s].is_null() {
            f(WATCH_PTR[s]);
        }
    }
}

pub fn unwind_safe<V: Tokish, const N: usize>(p: *const ()) {
    unsafe {
        let m = &*(p as *const Map<Tok, V, N>);
        assert!(m.len <= N, "C04: len exceeds capacity while user code runs");
        let base = m.pairs.as_ptr() as *const (Tok, V);
        let mut i = 0;
        while i < N {
            if i < m.len {
                let e = &*base.add(i);
                let kid = e.0.id;
                let vid = e.1.tid();
                assert!(is_live(kid) && (vid == NONE || is_live(vid)),
                    "C04: a slot counted by len holds a dead or uninitialised element while user code runs (a panic here makes unwinding destroy it again or treat garbage as live)");
                assert!(kid != DROPPING && (vid == NONE || vid != DROPPING),
                    "C04: the element being destroyed is still counted by len (a panicking destructor makes unwinding destroy it twice)");
                let mut j = i + 1;
                while j < N {
                    if j < m.len {
                        let f = &*base.add(j);
                        assert!(f.0.id != kid && (vid == NONE || f.1.tid() != vid),
                            "C04: the same element is counted twice while user code runs");
                    }
                    j += 1;
                }
            }
            i += 1;
        }
    }
}

pub fn watch<V: Tokish, const N: usize>(slot: usize, m: &Map<Tok, V, N>) {
    unsafe {
        WATCH_PTR[slot] = m as *const Map<Tok, V, N> as *const ();
        WATCH_FN[slot] = Some(unwind_safe::<V, N>);
    }
}

/// registers only the checker; the pointer is supplied by the body hook in `clone`
pub fn watch_fn<V: Tokish, const N: usize>(slot: usize) {
    unsafe {
        WATCH_PTR[slot] = core::ptr::null();
        WATCH_FN[slot] = Some(unwind_safe::<V, N>);
    }
}

pub fn unwatch(slot: usize) {
    unsafe {
        WATCH_PTR[slot] = core::ptr::null();
        WATCH_FN[slot] = None;
    }
}

/// Body hook (injected into `Map::clone` after `let mut m = Self::new();`):
/// makes the locally built destination visible to the monitor.
pub fn hook_local<K, V, const N: usize>(m: &Map<K, V, N>) {
    unsafe {
        if WATCH_FN[2].is_some() {
            WATCH_PTR[2] = m as *const Map<K, V, N> as *const ();
        }
    }
}

fn live1(i: usize) -> usize {
    unsafe {
        if i < NEXT && STATE[i] == 1 {
            1
        } else {
            0
        }
    }
}

/// number of live tokens (written without a loop: MAXT = 16 would otherwise set
/// the unwinding bound of every loop in the harness)
pub fn live_count() -> usize {
    live1(0) + live1(1) + live1(2) + live1(3) + live1(4) + live1(5) + live1(6) + live1(7)
        + live1(8) + live1(9) + live1(10) + live1(11) + live1(12) + live1(13) + live1(14) + live1(15)
}

/// every token ever created has been destroyed (exactly once - a second
/// destruction fails in `Drop`), except `live_ok` ones still held or leaked on purpose
pub fn all_dead_except(live_ok: usize) {
    assert!(live_count() == live_ok, "C02: an element was leaked, or is still alive after everything was dropped");
}

/// any len <= N, fresh tokens in the live prefix; slots beyond len keep the bytes
/// `Map::new()` left there (all zero under Kani = the never-issued id 0)
pub fn any_tok_weak<V: kani::Arbitrary, const N: usize>() -> Map<Tok, V, N> {
    let mut m: Map<Tok, V, N> = Map::new();
    let len: usize = kani::any();
    kani::assume(len <= N);
    let mut i = 0;
    while i < N {
        if i < len {
            m.pairs[i] = core::mem::MaybeUninit::new((kani::any(), kani::any()));
        }
        i += 1;
    }
    m.len = len;
    m
}

/// Arbitrary well-formed map of tokens (keys pairwise different by `key`).
pub fn any_tok_map<const N: usize>() -> Map<Tok, Tok, N> {
    let m = any_tok_weak::<Tok, N>();
    assume_distinct(&m);
    m
}
pub fn any_tok_set_map<const N: usize>() -> Map<Tok, (), N> {
    let m = any_tok_weak::<(), N>();
    assume_distinct(&m);
    m
}

pub fn key_at<V, const N: usize>(m: &Map<Tok, V, N>, i: usize) -> u8 {
    unsafe { (*(m.pairs.as_ptr() as *const (Tok, V)).add(i)).0.key }
}
pub fn kid_at<V, const N: usize>(m: &Map<Tok, V, N>, i: usize) -> usize {
    unsafe { (*(m.pairs.as_ptr() as *const (Tok, V)).add(i)).0.id }
}
pub fn vid_at<const N: usize>(m: &Map<Tok, Tok, N>, i: usize) -> usize {
    unsafe { (*(m.pairs.as_ptr() as *const (Tok, Tok)).add(i)).1.id }
}

pub fn assume_distinct<V, const N: usize>(m: &Map<Tok, V, N>) {
    let mut i = 0;
    while i < N {
        let mut j = i + 1;
        while j < N {
            if j < m.len {
                kani::assume(key_at(m, i) != key_at(m, j));
            }
            j += 1;
        }
        i += 1;
    }
}

/// the map's live prefix holds live, pairwise different tokens (wf for tokens)
pub fn tok_wf<V: Tokish, const N: usize>(m: &Map<Tok, V, N>) -> bool {
    if m.len > N {
        return false;
    }
    let mut ok = true;
    let mut i = 0;
    while i < N {
        if i < m.len {
            if !is_live(kid_at(m, i)) {
                ok = false;
            }
            let mut j = i + 1;
            while j < N {
                if j < m.len && key_at(m, i) == key_at(m, j) {
                    ok = false;
                }
                j += 1;
            }
        }
        i += 1;
    }
    ok
}
