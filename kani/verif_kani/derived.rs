//! C09 / C10 - the *derived* iterator methods (`fold`/`for_each`/`sum`, `nth`,
//! `last`, `count`) of every iterator type agree with their definition in terms of
//! `next()`.  Two bit-identical containers are built; on one the derived method is
//! applied after `cut` steps, on the other the iterator is stepped with `next()`.
//! This is independent of the direction an iterator walks in.

use super::spec::*;
use crate::{Map, Set};

pub const MAXN: usize = 7;

fn twin<const N: usize>(len: usize) -> (Map<u8, u8, N>, Map<u8, u8, N>) {
    let a: Map<u8, u8, N> = any_map_len(len);
    let mut b: Map<u8, u8, N> = Map::new();
    let ma = model(&a);
    let mut i = 0;
    while i < N {
        if i < len {
            b.pairs[i] = core::mem::MaybeUninit::new(ma.slot(i));
        } else {
            b.pairs[i] = core::mem::MaybeUninit::new((kani::any(), kani::any()));
        }
        i += 1;
    }
    b.len = len;
    (a, b)
}

macro_rules! derived {
    ($ita:expr, $itb:expr, $proj:expr, $op:expr, $cut:expr, $j:expr) => {{
        let mut ita = $ita;
        let mut itb = $itb;
        let proj = $proj;
        let mut c = 0;
        while c < MAXN {
            if c < $cut {
                let _ = ita.next();
                let _ = itb.next();
            }
            c += 1;
        }
        // reference: what stepping yields
        let mut eb: [(u8, u8); MAXN] = [(0, 0); MAXN];
        let mut nb = 0usize;
        let mut s = 0;
        while s < MAXN {
            if let Some(x) = itb.next() {
                eb[nb] = proj(x);
                nb += 1;
            }
            s += 1;
        }
        assert!(itb.next().is_none(), "harness: reference iterator not exhausted");
        match $op {
            0 => {
                let mut fa: [(u8, u8); MAXN] = [(0, 0); MAXN];
                let na = ita.fold(0usize, |acc, x| {
                    if acc < MAXN {
                        fa[acc] = proj(x);
                    }
                    acc + 1
                });
                assert!(na == nb, "C09/C10: fold (for_each, sum, ...) visits exactly the items next() would yield");
                let mut i = 0;
                while i < MAXN {
                    if i < nb {
                        assert!(fa[i] == eb[i], "C09/C10: fold visits the items next() would yield, in the same order");
                    }
                    i += 1;
                }
            }
            1 => {
                let r = ita.nth($j);
                if $j < nb {
                    assert!(r.is_some() && proj(r.unwrap()) == eb[$j], "C09/C10: nth(j) is the item j+1 calls of next() would reach");
                    let nx = ita.next();
                    if $j + 1 < nb {
                        assert!(nx.is_some() && proj(nx.unwrap()) == eb[$j + 1], "C09/C10: after nth(j) the iterator continues with the following item");
                    } else {
                        assert!(nx.is_none(), "C09/C10: after nth(last index) the iterator is exhausted");
                    }
                } else {
                    assert!(r.is_none(), "C09/C10: nth beyond the end is None");
                    assert!(ita.next().is_none(), "C09/C10: nth beyond the end exhausts the iterator");
                }
            }
            2 => {
                let r = ita.last();
                if nb > 0 {
                    assert!(r.is_some() && proj(r.unwrap()) == eb[nb - 1], "C09/C10: last() is the final item next() would yield");
                } else {
                    assert!(r.is_none(), "C09/C10: last() of an exhausted iterator is None");
                }
            }
            _ => {
                assert!(ita.count() == nb, "C09/C10: count() is the number of items next() would yield");
            }
        }
    }};
}

/// which: 0 Iter 1 IterMut 2 Keys 3 Values 4 ValuesMut 5 IntoIter 6 IntoKeys 7 IntoValues 8 Drain
/// 9 SetIter 10 SetIntoIter 11 SetDrain;  op: 0 fold 1 nth 2 last 3 count
pub fn h_derived<const N: usize>(which: u8, op: u8, len: usize, cut: usize, j: usize) {
    assert!(N <= MAXN - 1);
    let (mut a, mut b) = twin::<N>(len);
    match which {
        0 => derived!(a.iter(), b.iter(), |x: (&u8, &u8)| (*x.0, *x.1), op, cut, j),
        1 => derived!(a.iter_mut(), b.iter_mut(), |x: (&u8, &mut u8)| (*x.0, *x.1), op, cut, j),
        2 => derived!(a.keys(), b.keys(), |x: &u8| (*x, 0), op, cut, j),
        3 => derived!(a.values(), b.values(), |x: &u8| (0, *x), op, cut, j),
        4 => derived!(a.values_mut(), b.values_mut(), |x: &mut u8| (0, *x), op, cut, j),
        5 => derived!(a.into_iter(), b.into_iter(), |x: (u8, u8)| x, op, cut, j),
        6 => derived!(a.into_keys(), b.into_keys(), |x: u8| (x, 0), op, cut, j),
        7 => derived!(a.into_values(), b.into_values(), |x: u8| (0, x), op, cut, j),
        8 => {
            derived!(a.drain(), b.drain(), |x: (u8, u8)| x, op, cut, j);
            assert!(a.len() == 0, "C10: the map is empty after the drain is gone");
        }
        _ => {
            let (sa, sb) = (set_twin(&a), set_twin(&b));
            let (mut sa, mut sb) = (sa, sb);
            match which {
                9 => derived!(sa.iter(), sb.iter(), |x: &u8| (*x, 0), op, cut, j),
                10 => derived!(sa.into_iter(), sb.into_iter(), |x: u8| (x, 0), op, cut, j),
                _ => {
                    derived!(sa.drain(), sb.drain(), |x: u8| (x, 0), op, cut, j);
                    assert!(sa.len() == 0, "C10: the set is empty after the drain is gone");
                }
            }
        }
    }
    kani::cover!(true, "reached");
}

fn set_twin<const N: usize>(m: &Map<u8, u8, N>) -> Set<u8, N> {
    let md = model(m);
    let mut s: Map<u8, (), N> = Map::new();
    let mut i = 0;
    while i < N {
        if i < md.len {
            s.pairs[i] = core::mem::MaybeUninit::new((md.slot(i).0, ()));
        }
        i += 1;
    }
    s.len = md.len;
    set_of_map(s)
}
