//! C03 - a full container rejects a new key cleanly in every build profile.
//! Expected-panic units: pre-state `len == N`, key absent; the call must not
//! return, the only failing check may be the container's own panic site
//! (debug: the `debug_assert!`, release: the slice bounds check) and no
//! memory-safety check may fail (that would be a write outside the container).
//! Run under `-C debug-assertions=on` and `=off`.

use super::spec::*;
use super::tok::*;
use crate::{Map, Set};

pub struct OneShot<T> {
    pub item: Option<T>,
}
impl<T> Iterator for OneShot<T> {
    type Item = T;
    fn next(&mut self) -> Option<T> {
        self.item.take()
    }
}

/// which: 0 insert, 1 insert_key_value, 2 entry.or_insert, 3 entry.or_insert_with,
/// 4 entry.or_insert_with_key, 5 entry.or_default, 6 VacantEntry::insert, 7 Extend-like
/// loop of insert through FromIterator is in h_full_from_iter
pub fn h_full_map<K: Shape, V: Shape + Default, const N: usize>(which: u8) {
    let mut m: Map<K, V, N> = any_map();
    kani::assume(m.len == N);
    let pre = model(&m);
    let k: K = kani::any();
    let v: V = kani::any();
    kani::assume(!pre.contains(&k));
    assert!(m.capacity() == N && m.len() == N, "C03: capacity() is N and len() is at most N");
    kani::cover!(true, "reached");
    match which {
        0 => {
            m.insert(k, v);
        }
        1 => {
            m.insert_key_value(k, v);
        }
        2 => {
            m.entry(k).or_insert(v);
        }
        3 => {
            m.entry(k).or_insert_with(|| v);
        }
        4 => {
            m.entry(k).or_insert_with_key(|_| v);
        }
        5 => {
            m.entry(k).or_default();
        }
        _ => match m.entry(k) {
            crate::Entry::Vacant(e) => {
                e.insert(v);
            }
            crate::Entry::Occupied(_) => {
                assert!(false, "C11: entry() of an absent key is Vacant");
            }
        },
    }
    assert!(false, "C03: adding a new key to a full map returned instead of panicking");
}

/// collect / From with more distinct keys than capacity: N+1 pairwise different keys
pub fn h_full_from_iter<const N: usize, const L: usize>() {
    let items: [(u8, u8); L] = kani::any();
    // L = N + 1 pairwise different keys
    let mut i = 0;
    while i < L {
        let mut j = i + 1;
        while j < L {
            kani::assume(items[i].0 != items[j].0);
            j += 1;
        }
        i += 1;
    }
    kani::cover!(true, "reached");
    let m: Map<u8, u8, N> = items.into_iter().collect();
    assert!(false, "C03: collecting more distinct keys than the capacity returned instead of panicking");
}

/// which: 0 insert, 1 replace, 2 extend (by value), 3 extend (by reference), 4 from_iter
pub fn h_full_set<T: Shape, const N: usize>(which: u8) {
    let mut s: Set<T, N> = any_set();
    kani::assume(s.len() == N);
    let pre = smodel(&s);
    let k: T = kani::any();
    kani::assume(!pre.contains(&k));
    assert!(s.capacity() == N, "C03: Set::capacity() is N");
    kani::cover!(true, "reached");
    match which {
        0 => {
            s.insert(k);
        }
        1 => {
            s.replace(k);
        }
        2 => {
            s.extend(OneShot { item: Some(k) });
        }
        _ => {
            let arr = [k];
            s.extend(arr.iter());
        }
    }
    assert!(false, "C03: adding a new element to a full set returned instead of panicking");
}

pub fn h_full_set_from_iter<const N: usize, const L: usize>() {
    let items: [u8; L] = kani::any();
    let mut i = 0;
    while i < L {
        let mut j = i + 1;
        while j < L {
            kani::assume(items[i] != items[j]);
            j += 1;
        }
        i += 1;
    }
    kani::cover!(true, "reached");
    let s: Set<u8, N> = items.into_iter().collect();
    assert!(false, "C03: collecting more distinct elements than the capacity returned instead of panicking");
}

/// replacing the value of a present key succeeds on a full map (every entry point)
pub fn h_full_replace<K: Shape, V: Shape, const N: usize>(which: u8) {
    let mut m: Map<K, V, N> = any_map();
    kani::assume(m.len == N);
    let pre = model(&m);
    let k: K = kani::any();
    let v: V = kani::any();
    kani::assume(pre.contains(&k));
    let old = pre.get(&k).unwrap();
    match which {
        0 => {
            let r = m.insert(k, v);
            assert!(same_opt(&r, &Some(old.1)), "C03.insert: replacing on a full map returns the old value");
        }
        1 => {
            let r = m.insert_key_value(k, v);
            assert!(same_opt_pair(&r, &Some(old)), "C03.insert_key_value: replacing on a full map returns the old pair");
        }
        2 => {
            let r = m.checked_insert(k, v);
            assert!(r.is_some() && same_opt(&r.unwrap(), &Some(old.1)), "C03.checked_insert: replacing on a full map succeeds");
        }
        _ => {
            let r = m.entry(k).or_insert(v);
            assert!(r.same(&old.1), "C03.entry: or_insert on a present key of a full map returns the current value");
            *r = v;
        }
    }
    let post = model(&m);
    let q: K = kani::any();
    let stored = if which == 1 { k } else { old.0 };
    let e = if q == k { Some((stored, v)) } else { pre.get(&q) };
    assert!(same_opt_pair(&post.get(&q), &e), "C03: replacing on a full map changes that binding only");
    assert!(post.len == N && post.wf(), "C03: the map stays full and well-formed");
    kani::cover!(true, "reached");
}

/// S_tok: the map stays droppable at every callback made before the panic
pub fn h_full_tok<const N: usize>(which: u8) {
    let mut m = any_tok_map::<N>();
    kani::assume(m.len == N);
    let k = Tok::mint(kani::any());
    let v = Tok::mint(kani::any());
    let mut i = 0;
    while i < N {
        kani::assume(key_at(&m, i) != k.key);
        i += 1;
    }
    watch(0, &m);
    kani::cover!(true, "reached");
    match which {
        0 => {
            m.insert(k, v);
        }
        1 => {
            m.insert_key_value(k, v);
        }
        _ => {
            m.entry(k).or_insert(v);
        }
    }
    assert!(false, "C03: adding a new key to a full map returned instead of panicking");
}

/// checked_insert on a full map with an absent key: None, nothing changes, and the
/// rejected key and value are destroyed exactly once
pub fn h_checked_full_tok<const N: usize>() {
    let mut m = any_tok_map::<N>();
    kani::assume(m.len == N);
    let k = Tok::mint(kani::any());
    let v = Tok::mint(kani::any());
    let (kid, vid) = (k.id, v.id);
    let mut i = 0;
    while i < N {
        kani::assume(key_at(&m, i) != k.key);
        i += 1;
    }
    watch(0, &m);
    let r = m.checked_insert(k, v);
    assert!(r.is_none(), "C03.checked_insert: full map and absent key gives None");
    assert!(is_dead(kid) && is_dead(vid), "C03.checked_insert: the rejected key and value have been destroyed");
    assert!(m.len == N && tok_wf(&m), "C03.checked_insert: the map is unchanged");
    unwatch(0);
    drop(m);
    all_dead_except(0);
    kani::cover!(true, "reached");
}

/// a source whose size_hint under-reports (upper bound 0): legal for an Iterator,
/// the container may not rely on it for memory safety
pub struct Liar<const L: usize> {
    pub items: [(u8, u8); L],
    pub pos: usize,
}
impl<const L: usize> Iterator for Liar<L> {
    type Item = (u8, u8);
    fn next(&mut self) -> Option<(u8, u8)> {
        if self.pos < L {
            self.pos += 1;
            Some(self.items[self.pos - 1])
        } else {
            None
        }
    }
    fn size_hint(&self) -> (usize, Option<usize>) {
        (0, Some(0))
    }
}

pub fn h_full_from_liar<const N: usize, const L: usize>() {
    let items: [(u8, u8); L] = kani::any();
    let mut i = 0;
    while i < L {
        let mut j = i + 1;
        while j < L {
            kani::assume(items[i].0 != items[j].0);
            j += 1;
        }
        i += 1;
    }
    kani::cover!(true, "reached");
    let m: Map<u8, u8, N> = Liar { items, pos: 0 }.collect();
    assert!(false, "C03: collecting more distinct keys than the capacity returned instead of panicking (source with a wrong size_hint)");
}
