//! Specification vocabulary and proof harnesses for micromap, injected into a
//! scratch copy of the crate as `crate::verif_kani` (cfg(kani) only).
//! Nothing here is compiled into the real crate.

pub mod spec;
pub mod tok;

pub mod canary;
pub mod core_contracts;
pub mod c01;
pub mod life;
pub mod c03;
pub mod c07;
pub mod c08;
pub mod c09;
pub mod c10;
pub mod derived;
pub mod c11;
pub mod c13;
pub mod c14;
pub mod c16;
pub mod c17;
pub mod c19;
#[cfg(feature = "serde")]
pub mod c20;
