//! C14 - equality is extensional; C15 - clone view equality for Copy shapes.

use super::spec::*;
use crate::{Map, Set};

/// oracle: both inclusions with values, independent of the implementation's shortcut
pub fn ext_eq<K: Shape, V: Shape, const N: usize, const M: usize>(a: &Model<K, V, N>, b: &Model<K, V, M>) -> bool {
    let mut ok = a.len == b.len;
    let mut i = 0;
    while i < N {
        if i < a.len {
            let (k, v) = a.slot(i);
            match b.get(&k) {
                Some(p) => {
                    if !(p.1 == v) {
                        ok = false;
                    }
                }
                None => ok = false,
            }
        }
        i += 1;
    }
    let mut j = 0;
    while j < M {
        if j < b.len {
            let (k, v) = b.slot(j);
            match a.get(&k) {
                Some(p) => {
                    if !(p.1 == v) {
                        ok = false;
                    }
                }
                None => ok = false,
            }
        }
        j += 1;
    }
    ok
}

pub fn h_map_eq<K: Shape, V: Shape, const N: usize, const M: usize>() {
    let a: Map<K, V, N> = any_map();
    let b: Map<K, V, M> = any_map();
    let (ma, mb) = (model(&a), model(&b));
    let r = a == b;
    assert!(r == ext_eq(&ma, &mb), "C14.eq: equal exactly when both hold the same keys with equal values");
    assert!((b == a) == r, "C14.eq: symmetric");
    assert!(a == a && b == b, "C14.eq: reflexive");
    assert!((a != b) == !r, "C14.ne: the negation of eq");
    assert!(model(&a).same(&ma) && model(&b).same(&mb), "C14.eq: modifies neither operand");
    kani::cover!(r && ma.len > 0 || N == 0 || M == 0, "reached");
    kani::cover!(!r || N == 0 && M == 0, "reached unequal");
}

/// an operand compared with itself, for keys and values whose `==` is not reflexive: the answer is a
/// function of the entries (false as soon as one entry is not equal to itself), never of object identity
pub fn h_self_eq_nr<const N: usize>() {
    let a: Map<Nr, Nr, N> = any_map();
    let ma = model(&a);
    let r = a == a;
    assert!(r == ext_eq(&ma, &ma), "C14.eq: an operand compared with itself answers by its entries (non-reflexive ==), not by identity");
    assert!((a != a) == !r, "C14.ne: the negation of eq");
    let s: Set<Nr, N> = any_set();
    let ms = smodel(&s);
    assert!((s == s) == ext_eq(&ms, &ms), "C14.Set::eq: an operand compared with itself answers by its elements (non-reflexive ==), not by identity");
    kani::cover!(r && ma.len > 0, "reached");
    kani::cover!(!r, "reached unequal");
}

pub fn h_set_eq<T: Shape, const N: usize, const M: usize>() {
    let a: Set<T, N> = any_set();
    let b: Set<T, M> = any_set();
    let (ma, mb) = (smodel(&a), smodel(&b));
    let r = a == b;
    assert!(r == ext_eq(&ma, &mb), "C14.Set::eq: equal exactly when both hold the same elements");
    assert!((b == a) == r && a == a, "C14.Set::eq: symmetric and reflexive");
    assert!(smodel(&a).same(&ma) && smodel(&b).same(&mb), "C14.Set::eq: modifies neither operand");
    kani::cover!(r && ma.len > 0 || N == 0 || M == 0, "reached");
}

pub fn h_clone_view<K: Shape, V: Shape, const N: usize>() {
    let m: Map<K, V, N> = any_map();
    let pre = model(&m);
    let mut c = m.clone();
    let mc = model(&c);
    assert!(mc.len == pre.len && mc.wf(), "C15.clone: same number of entries, well-formed");
    let q: K = kani::any();
    assert!(same_opt_pair(&mc.get(&q), &pre.get(&q)), "C15.clone: holds exactly the same entries");
    assert!(c == m, "C15.clone: compares equal to the original");
    assert!(!inside(&c, &m) && !inside(&m, &c), "C15.clone: a separate value");
    // independence: mutate the clone, the original is untouched (and vice versa)
    let k2: K = kani::any();
    let v2: V = kani::any();
    if mc.contains(&k2) || mc.len < N {
        c.insert(k2, v2);
    }
    c.clear();
    assert!(model(&m).same(&pre), "C15.clone: later changes to the clone leave the original untouched");
    kani::cover!(pre.len > 0 || N == 0, "reached");
}

/// `clone_from` (the defaulted method of Clone) must behave like `*dst = src.clone()`
pub fn h_clone_from<K: Shape, V: Shape, const N: usize>() {
    let m: Map<K, V, N> = any_map();
    let pre = model(&m);
    let mut d: Map<K, V, N> = any_map();
    d.clone_from(&m);
    let md = model(&d);
    let q: K = kani::any();
    assert!(md.len == pre.len && md.wf() && same_opt_pair(&md.get(&q), &pre.get(&q)), "C15.clone_from: the destination holds exactly the source's entries afterwards");
    assert!(d == m && model(&m).same(&pre), "C15.clone_from: equal to the source, source untouched");
    let mut s: Set<K, N> = any_set();
    let src: Set<K, N> = any_set();
    s.clone_from(&src);
    assert!(s == src && smodel(&s).wf() && s.len() == src.len(), "C15.Set::clone_from: equal to the source");
    let qs: K = kani::any();
    assert!(same_opt_pair(&smodel(&s).get(&qs), &smodel(&src).get(&qs)), "C15.Set::clone_from: the destination holds copies of the source's own elements (not its previous, merely equal ones)");
    kani::cover!(pre.len > 0 || N == 0, "reached");
}

pub fn h_set_clone_view<T: Shape, const N: usize>() {
    let s: Set<T, N> = any_set();
    let pre = smodel(&s);
    let c = s.clone();
    let mc = smodel(&c);
    let q: T = kani::any();
    assert!(mc.len == pre.len && mc.wf() && same_opt_pair(&mc.get(&q), &pre.get(&q)), "C15.Set::clone: holds exactly the same elements");
    assert!(c == s, "C15.Set::clone: compares equal to the original");
    drop(c);
    assert!(smodel(&s).same(&pre), "C15.Set::clone: dropping the clone leaves the original untouched");
    kani::cover!(pre.len > 0 || N == 0, "reached");
}

pub static mut CC_CLONES: usize = 0;
pub static mut Z_CLONES: usize = 0;
pub static mut Z_DROPS: usize = 0;

/// Clone with an observable effect, no destructor (no drop glue), not Copy
pub struct Cc(pub u8);
impl Clone for Cc {
    fn clone(&self) -> Self {
        unsafe {
            CC_CLONES += 1;
        }
        Cc(self.0)
    }
}
impl PartialEq for Cc {
    fn eq(&self, o: &Self) -> bool {
        self.0 == o.0
    }
}

/// zero-sized element with observable Clone and Drop; never equal to anything
pub struct Z;
impl Clone for Z {
    fn clone(&self) -> Self {
        unsafe {
            Z_CLONES += 1;
        }
        Z
    }
}
impl Drop for Z {
    fn drop(&mut self) {
        unsafe {
            Z_DROPS += 1;
        }
    }
}
impl PartialEq for Z {
    fn eq(&self, _o: &Self) -> bool {
        false
    }
}

pub fn h_clone_count_nodrop<const N: usize>(len: usize) {
    let mut m: Map<Cc, Cc, N> = Map::new();
    let keys: [u8; N] = kani::any();
    let mut i = 0;
    while i < N {
        if i < len {
            m.pairs[i] = core::mem::MaybeUninit::new((Cc(keys[i]), Cc(keys[i])));
        }
        i += 1;
    }
    m.len = len;
    let c = m.clone();
    assert!(unsafe { CC_CLONES } == 2 * len, "C15.clone: every stored key and value is cloned exactly once (also for types without a destructor)");
    assert!(c.len() == len, "C15.clone: same number of entries");
    let mut i = 0;
    while i < N {
        if i < len {
            let p = unsafe { c.pairs[i].assume_init_ref() };
            assert!(p.0 .0 == keys[i] && p.1 .0 == keys[i], "C15.clone: the clone holds the same entries");
        }
        i += 1;
    }
    kani::cover!(true, "reached");
}

pub fn h_clone_count_zst<const N: usize>(len: usize) {
    let mut s: Map<Z, (), N> = Map::new();
    let mut i = 0;
    while i < N {
        if i < len {
            s.pairs[i] = core::mem::MaybeUninit::new((Z, ()));
        }
        i += 1;
    }
    s.len = len;
    let c = s.clone();
    assert!(unsafe { Z_CLONES } == len, "C15.clone: zero-sized elements are cloned exactly once each too");
    assert!(c.len() == len, "C15.clone: same number of entries");
    drop(c);
    drop(s);
    assert!(unsafe { Z_DROPS } == 2 * len, "C02: every element of the original and of the clone is destroyed exactly once");
    kani::cover!(true, "reached");
}
