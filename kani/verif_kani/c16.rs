//! C16 - bulk construction equals inserting the items one by one in order.

use super::spec::*;
use crate::{Map, Set};

/// source iterator that records how it is consumed
pub struct RecIter<T: Copy, const L: usize> {
    pub items: [T; L],
    pub pos: usize,
    pub calls: usize,
    pub after_end: usize,
}
impl<T: Copy, const L: usize> Iterator for RecIter<T, L> {
    type Item = T;
    fn next(&mut self) -> Option<T> {
        self.calls += 1;
        if self.pos < L {
            let x = self.items[self.pos];
            self.pos += 1;
            Some(x)
        } else {
            self.after_end += 1;
            None
        }
    }
}

/// number of pairwise different keys among the first `n` items
fn distinct<K: Shape, V: Shape, const L: usize>(items: &[(K, V); L]) -> usize {
    let mut c = 0;
    let mut i = 0;
    while i < L {
        let mut dup = false;
        let mut j = 0;
        while j < L {
            if j < i && items[j].0 == items[i].0 {
                dup = true;
            }
            j += 1;
        }
        if !dup {
            c += 1;
        }
        i += 1;
    }
    c
}

/// expectation for a probe key: first key object, last value
fn expect<K: Shape, V: Shape, const L: usize>(items: &[(K, V); L], q: &K) -> Option<(K, V)> {
    let mut e: Option<(K, V)> = None;
    let mut i = 0;
    while i < L {
        if items[i].0 == *q {
            e = Some(match e {
                None => items[i],
                Some(p) => (p.0, items[i].1),
            });
        }
        i += 1;
    }
    e
}

/// which: 0 from_iter through a recording iterator, 1 collect from array into_iter
pub fn h_from_iter<K: Shape, V: Shape, const N: usize, const L: usize>(which: u8) {
    let items: [(K, V); L] = kani::any();
    let d = distinct(&items);
    kani::assume(d <= N); // otherwise the call must panic: C03
    let m: Map<K, V, N> = if which == 0 {
        let mut src = RecIter { items, pos: 0, calls: 0, after_end: 0 };
        let m = Map::from_iter(&mut src);
        assert!(src.calls == L + 1 && src.pos == L && src.after_end == 1, "C16.from_iter: the source is consumed exactly once, front to back");
        m
    } else {
        items.into_iter().collect()
    };
    let post = model(&m);
    let q: K = kani::any();
    assert!(same_opt_pair(&post.get(&q), &expect(&items, &q)), "C16.from_iter: equals inserting one by one (last value wins, first key object kept)");
    assert!(post.len == d && post.wf(), "C16.from_iter: repeats do not consume capacity");
    kani::cover!(d < L || L == 0, "reached");
    kani::cover!(d == N, "reached full");
}

pub fn h_from_array<K: Shape, V: Shape, const N: usize>() {
    let items: [(K, V); N] = kani::any();
    let m: Map<K, V, N> = Map::from(items);
    let post = model(&m);
    let q: K = kani::any();
    assert!(same_opt_pair(&post.get(&q), &expect(&items, &q)), "C16.From<[_;N]>: equals inserting one by one");
    assert!(post.len == distinct(&items) && post.wf(), "C16.From<[_;N]>: repeats do not consume capacity");
    kani::cover!(true, "reached");
}

/// which: 0 Set::from_iter (recording), 1 Set::from array
pub fn h_set_from<T: Shape, const N: usize, const L: usize>(which: u8) {
    let items: [T; L] = kani::any();
    let pairs: [(T, ()); L] = {
        let mut p = [(items[0], ()); L];
        let mut i = 0;
        while i < L {
            p[i] = (items[i], ());
            i += 1;
        }
        p
    };
    let d = distinct(&pairs);
    kani::assume(d <= N);
    let s: Set<T, N> = if which == 0 {
        let mut src = RecIter { items, pos: 0, calls: 0, after_end: 0 };
        let s = Set::from_iter(&mut src);
        assert!(src.calls == L + 1 && src.pos == L && src.after_end == 1, "C16.Set::from_iter: the source is consumed exactly once, front to back");
        s
    } else {
        items.into_iter().collect()
    };
    let post = smodel(&s);
    let q: T = kani::any();
    assert!(same_opt_pair(&post.get(&q), &expect(&pairs, &q)), "C16.Set::from_iter: equals inserting one by one (first object kept)");
    assert!(post.len == d && post.wf(), "C16.Set::from_iter: repeats do not consume capacity");
    kani::cover!(d < L, "reached");
}

pub fn h_set_from_array<T: Shape, const N: usize>() {
    let items: [T; N] = kani::any();
    let s: Set<T, N> = Set::from(items);
    let post = smodel(&s);
    let q: T = kani::any();
    let mut e: Option<T> = None;
    let mut i = 0;
    while i < N {
        if e.is_none() && items[i] == q {
            e = Some(items[i]);
        }
        i += 1;
    }
    assert!(same_opt(&post.get(&q).map(|p| p.0), &e), "C16.Set::From<[_;N]>: equals inserting one by one");
    assert!(post.wf(), "C16.Set::From<[_;N]>: well-formed");
    kani::cover!(true, "reached");
}

/// C06 at a large element size.  The allocator analysis runs on the program of each unit, and a
/// size-threshold specialisation (`if size_of::<Self>() > 4096 { Box::new(..) }`) is a constant-false
/// branch for the small shapes - rustc removes it before the verifier sees it.  This unit instantiates
/// every bulk/whole-container operation with a container of more than 8 KiB (one element of 8200 bytes,
/// compared on its first byte), so such a branch is live in the analysed program.
#[derive(Clone, Copy)]
pub struct Big {
    pub id: u8,
    pub pad: [u8; 8199],
}
impl PartialEq for Big {
    fn eq(&self, o: &Self) -> bool {
        self.id == o.id
    }
}
impl core::fmt::Debug for Big {
    fn fmt(&self, f: &mut core::fmt::Formatter<'_>) -> core::fmt::Result {
        f.write_str("B")
    }
}

pub fn h_big_whole<const N: usize>() {
    let id: u8 = kani::any();
    let b = Big { id, pad: [0; 8199] };
    let s: Set<Big, N> = [b; N].into_iter().collect();
    assert!(s.len() == 1 && s.contains(&b), "C16.from_iter: a large element type behaves like any other");
    let s2: Set<Big, N> = Set::from([b; N]);
    let mut s3: Set<Big, N> = Set::new();
    s3.extend([b; N]);
    assert!(s2.len() == 1 && s3.len() == 1);
    let m: Map<Big, Big, N> = [(b, b); N].into_iter().collect();
    let m2: Map<Big, Big, N> = Map::from([(b, b); N]);
    assert!(m.len() == 1 && m2.len() == 1 && m.get(&b).is_some());
    let c = m.clone();
    let cs = s.clone();
    assert!(c.len() == 1 && cs.len() == 1 && c == m && cs == s);
    let d: Set<Big, N> = &s - &s2;
    assert!(d.is_empty());
    let mut mm = m;
    mm.retain(|_, _| false);
    let n = mm.drain().count() + c.into_iter().count() + cs.into_iter().count();
    assert!(n == 2);
    kani::cover!(true, "reached");
}
